#!/bin/bash
# tools/seed_matrix.sh <out.json> <name=patch> ...   — full matrix seeds x 20 quick checks
OUT="$1"; shift
echo "{" > "$OUT"
first=1
for kv in "$@"; do
  name="${kv%%=*}"; patch="${kv#*=}"
  res=$(/verif/tools/try_seed.sh "$patch" 2>&1 | grep "^CAUGHT BY:" | sed 's/CAUGHT BY://')
  [ $first -eq 1 ] || echo "," >> "$OUT"; first=0
  printf '"%s": "%s"' "$name" "$(echo $res)" >> "$OUT"
  echo "$name -> $res"
done
echo "}" >> "$OUT"
