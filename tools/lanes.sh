#!/bin/bash
# tools/lanes.sh <nlanes> <jobfile> <outdir>
# Parallel regression of seeded / benign patches in scratch copies ("lanes") — for my own regression runs only.
# Registered checks and committed evidence always come from ./check against /repo itself; a lane is a git worktree of
# /repo plus a copy of /verif/harness whose path dependency and target dir point into the lane, and GSEMC_VERIF_DIR makes
# the binary write its evidence / replays into the lane. Job file: one job per line "<name> <abs patch> <check> [<check>...]".
# Output: <outdir>/result.txt with lines "<name> -> <checks that reported a violation>" (exit codes other than 0/1 are
# reported as "<check>!machinery").
set -u
N="$1"; JOBS="$2"; OUT="$3"; TIER="${TIER:-quick}"
mkdir -p "$OUT"; : > "$OUT/result.txt"
BASE=/tmp/lanes
mkdir -p $BASE
setup_lane() {
  local i=$1 L=$BASE/$1
  if [ ! -d $L/repo ]; then
    mkdir -p $L
    git -C /repo worktree add -q --detach $L/repo HEAD || return 1
  else
    git -C $L/repo checkout -q -- . ; git -C $L/repo checkout -q --detach $(git -C /repo rev-parse HEAD)
  fi
  rm -rf $L/harness; mkdir -p $L/harness $L/verif/evidence $L/verif/replays
  cp -r /verif/harness/src /verif/harness/Cargo.toml /verif/harness/Cargo.lock $L/harness/
  mkdir -p $L/harness/.cargo
  sed "s#/verif/target#$L/target#" /verif/harness/.cargo/config.toml > $L/harness/.cargo/config.toml
  sed -i "s#path = \"/repo\"#path = \"$L/repo\"#" $L/harness/Cargo.toml
  cp /verif/known_findings.json $L/verif/
}
run_lane() {
  local i=$1 L=$BASE/$1
  setup_lane $i || { echo "lane $i setup failed" >> "$OUT/result.txt"; return; }
  awk -v n=$N -v i=$i 'NF>=3 && (NR-1)%n==i' "$JOBS" | while read -r name patch checks; do
    git -C $L/repo checkout -q -- .
    if ! git -C $L/repo apply "$patch" 2>/dev/null; then echo "$name -> PATCH-DOES-NOT-APPLY" >> "$OUT/result.txt"; continue; fi
    if ! (cd $L/harness && CARGO_NET_OFFLINE=true cargo build --profile mc --offline >/dev/null 2>&1); then echo "$name -> BUILD-FAILED" >> "$OUT/result.txt"; git -C $L/repo checkout -q -- .; continue; fi
    caught=""
    for c in $checks; do
      GSEMC_VERIF_DIR=$L/verif timeout 600 $L/target/mc/gsemc check $c --tier $TIER > $L/last_$c.log 2>&1; rc=$?
      if [ $rc -eq 1 ]; then caught="$caught $c"; elif [ $rc -ne 0 ]; then caught="$caught $c!machinery($rc)"; cp $L/last_$c.log "$OUT/${name}_$c.log"; fi
    done
    echo "$name ->$caught" >> "$OUT/result.txt"
    git -C $L/repo checkout -q -- .
  done
}
for i in $(seq 0 $((N-1))); do run_lane $i & done
wait
sort "$OUT/result.txt" -o "$OUT/result.txt"
echo "done: $(wc -l < "$OUT/result.txt") jobs"
