//! Closed system around the real receiver: provision / new_pdu / reset / decap(packet of the
//! alphabet). Used as C08's conservation model and as the generator of reachable receiver
//! states for C05, C10 and C16.

use crate::common::*;
use crate::explore::*;
use crate::report::Acc;
use crate::rx::*;
use crate::rxalpha::*;
use dvb_gse_rust::crc::DefaultCrc;
use serde_json::{json, Value};

#[derive(Clone, Debug, PartialEq, Eq, Hash)]
pub struct St {
    pub rx: RxS,
    /// buffers currently owned by the caller (identified by their pairwise distinct lengths)
    pub owned: Vec<usize>,
}

#[derive(Clone, Debug, PartialEq, Eq)]
pub enum Op {
    Provision(usize),
    NewPdu,
    Reset,
    Decap(usize),
}

pub struct Sys {
    pub slots: usize,
    pub max_pdu: usize,
    pub buffers: Vec<usize>,
    pub alphabet: Vec<Pkt>,
    pub mgr: TableMgr,
    /// report conservation violations (C08) or only generate states
    pub check_conservation: bool,
    /// buffers already in the free list in the initial state
    pub pre_provisioned: Vec<usize>,
}

/// Normalise contents the property cannot observe: free buffers are zeroed, context buffers
/// are zeroed beyond the bytes written for the current reassembly (decap never reads them:
/// the CRC is computed over [..pdu_len] only; C02/C03/C07 compare delivered bytes exactly).
pub fn normalise(rx: &mut RxS) {
    for b in rx.mem.free.iter_mut() {
        for x in b.iter_mut() {
            *x = 0;
        }
    }
    for f in rx.mem.frags.iter_mut().flatten() {
        let n = (f.0.pdu_len as usize).min(f.1.len());
        for x in f.1[n..].iter_mut() {
            *x = 0;
        }
    }
}

impl Sys {
    pub fn new(slots: usize, max_pdu: usize, buffers: Vec<usize>, check: bool) -> Sys {
        Sys { slots, max_pdu, buffers, alphabet: alphabet(slots), mgr: mgr_std(), check_conservation: check, pre_provisioned: vec![] }
    }
    pub fn decap(&self, rx: &RxS, bytes: &[u8]) -> (DecapOut, RxS) {
        step_decap(rx, &DefaultCrc {}, &self.mgr, bytes)
    }
}

fn multiset(rx: &RxS, owned: &[usize]) -> Vec<usize> {
    let mut v = rx.mem.buffer_lens();
    v.extend_from_slice(owned);
    v.sort();
    v
}

impl System for Sys {
    type State = St;
    type Op = Op;
    fn init(&self) -> Vec<St> {
        let mut o = self.buffers.clone();
        o.sort();
        vec![St { rx: RxS::new(self.slots, self.max_pdu, &self.pre_provisioned), owned: o }]
    }
    fn ops(&self, s: &St) -> Vec<Op> {
        let mut v = vec![];
        for &b in &s.owned {
            v.push(Op::Provision(b));
        }
        v.push(Op::NewPdu);
        v.push(Op::Reset);
        for i in 0..self.alphabet.len() {
            v.push(Op::Decap(i));
        }
        v
    }
    fn step(&self, s: &St, op: &Op, acc: &mut Acc) -> StepOut<St> {
        let mut viols = vec![];
        let before = multiset(&s.rx, &s.owned);
        let mut owned = s.owned.clone();
        acc.calls += 1;
        let (after_rx, opname, outcome): (RxS, String, String) = match op {
            Op::Provision(len) => {
                let mut d = s.rx.build(DefaultCrc {}, self.mgr.clone());
                let i = owned.iter().position(|x| x == len).unwrap();
                owned.remove(i);
                let r = catch(|| d.provision_storage(vec![0u8; *len].into_boxed_slice()));
                let oc = match r {
                    Err(p) => {
                        viols.push((format!("C08|panic|provision|{}", p.coarse()), format!("provision_storage panics at {}", p.0)));
                        return StepOut { next: None, viols };
                    }
                    Ok(Ok(())) => "Ok".to_string(),
                    Ok(Err(e)) => {
                        let (k, hb) = mem_err_kind(&e);
                        if let Some(b) = hb {
                            owned.push(b.len());
                        }
                        format!("Err({})", k)
                    }
                };
                (RxS::of(&d), "provision".into(), oc)
            }
            Op::NewPdu => {
                let mut d = s.rx.build(DefaultCrc {}, self.mgr.clone());
                let r = catch(|| d.new_pdu());
                let oc = match r {
                    Err(p) => {
                        viols.push((format!("C08|panic|new_pdu|{}", p.coarse()), format!("new_pdu panics at {}", p.0)));
                        return StepOut { next: None, viols };
                    }
                    Ok(Ok(b)) => {
                        owned.push(b.len());
                        "Ok".to_string()
                    }
                    Ok(Err(e)) => format!("Err({})", mem_err_kind(&e).0),
                };
                (RxS::of(&d), "new_pdu".into(), oc)
            }
            Op::Reset => {
                let mut d = s.rx.build(DefaultCrc {}, self.mgr.clone());
                d.reset_last_label();
                (RxS::of(&d), "reset".into(), "Ok".into())
            }
            Op::Decap(i) => {
                let pkt = &self.alphabet[*i];
                let (out, rx2) = self.decap(&s.rx, &pkt.bytes);
                match &out {
                    DecapOut::Panic(_) => {
                        // reported by C05; the transition is dropped here
                        acc.outcome(&format!("decap:{}:PANIC", pkt.name));
                        return StepOut { next: None, viols };
                    }
                    DecapOut::Completed { buf, .. } => owned.push(buf.len()),
                    DecapOut::Err { handed_back: Some(b), .. } => owned.push(b.len()),
                    _ => {}
                }
                (rx2, format!("decap:{}", pkt.name), out.class())
            }
        };
        acc.outcome(&format!("{}:{}", opname, outcome));
        acc.compared += 1;
        let after = multiset(&after_rx, &owned);
        if self.check_conservation {
            if after != before {
                let lost: Vec<usize> = before.iter().filter(|x| !after.contains(x)).cloned().collect();
                let extra: Vec<usize> = after.iter().filter(|x| !before.contains(x)).cloned().collect();
                let kind = if !lost.is_empty() { "leak" } else { "duplicate-or-foreign" };
                viols.push((format!("C08|{}|{}|{}", kind, opname, outcome), format!("{} -> {}: storage buffers before {:?}, after {:?} (lost {:?}, appeared {:?}); counted: free list + contexts + caller-owned (incl. handed out in the result)", opname, outcome, before, after, lost, extra)));
            }
            let mut a2 = after.clone();
            a2.dedup();
            if a2.len() != after.len() {
                viols.push((format!("C08|duplicate|{}|{}", opname, outcome), format!("{} -> {}: a buffer appears twice: {:?}", opname, outcome, after)));
            }
        }
        let mut rx = after_rx;
        normalise(&mut rx);
        owned.sort();
        StepOut { next: Some(St { rx, owned }), viols }
    }
    fn op_json(&self, op: &Op) -> Value {
        match op {
            Op::Decap(i) => json!({"decap": self.alphabet[*i].name, "bytes": hex(&self.alphabet[*i].bytes)}),
            other => json!(format!("{:?}", other)),
        }
    }
}
