//! Reference models written from ETSI TS 102 606-1 §4 / RFC 5163 §5, without calling any
//! codec function of the crate under test.

use crate::common::*;

// ---------------------------------------------------------------------------------------
// CRC-32/MPEG-2, bit serial (no table): poly 0x04C11DB7, init 0xFFFFFFFF, no reflection,
// no final XOR.
// ---------------------------------------------------------------------------------------

pub fn crc_update(mut reg: u32, data: &[u8]) -> u32 {
    for &b in data {
        reg ^= (b as u32) << 24;
        for _ in 0..8 {
            reg = if reg & 0x8000_0000 != 0 { (reg << 1) ^ 0x04C1_1DB7 } else { reg << 1 };
        }
    }
    reg
}

pub fn crc_ref(total_len: u16, pt: u16, label: &[u8], pdu: &[u8]) -> u32 {
    let mut r = 0xFFFF_FFFFu32;
    r = crc_update(r, &total_len.to_be_bytes());
    r = crc_update(r, &pt.to_be_bytes());
    r = crc_update(r, label);
    crc_update(r, pdu)
}

// ---------------------------------------------------------------------------------------
// Wire format
// ---------------------------------------------------------------------------------------

#[derive(Clone, Copy, PartialEq, Eq, Hash, Debug, PartialOrd, Ord)]
pub enum Kind {
    Complete,
    First,
    Inter,
    End,
}

impl Kind {
    pub fn name(self) -> &'static str {
        match self {
            Kind::Complete => "CompletePkt",
            Kind::First => "FirstFragPkt",
            Kind::Inter => "IntermediateFragPkt",
            Kind::End => "EndFragPkt",
        }
    }
}

/// what a receiver knows about one mandatory extension id: (is_final, data length)
pub type MandTable<'a> = &'a dyn Fn(u16) -> Option<(bool, usize)>;

#[derive(Clone, PartialEq, Eq, Debug)]
pub struct Parsed {
    pub kind: Kind,
    pub lt: u8,
    pub gse_len: usize,
    pub frag_id: Option<u8>,
    pub total_len: Option<u16>,
    /// the 2-byte type field right after frag id / total length (protocol type or first ext id)
    pub type_field: Option<u16>,
    pub label: Vec<u8>,
    pub exts: Vec<(u16, Vec<u8>)>,
    /// protocol type after the extension chain (for a final mandatory extension: its id)
    pub pt: Option<u16>,
    pub payload: Vec<u8>,
    pub crc: Option<u32>,
}

#[derive(Clone, PartialEq, Eq, Debug)]
pub enum WireErr {
    TooShort,
    Padding,
    Truncated(&'static str),
    UnknownMandatory(u16),
}

/// Decode the 16-bit fixed header. None = padding pattern (S=0,E=0,LT=00).
pub fn header_fields(w: u16) -> Option<(Kind, u8, usize)> {
    let s = w & 0x8000 != 0;
    let e = w & 0x4000 != 0;
    let lt = ((w >> 12) & 3) as u8;
    if !s && !e && lt == 0 {
        return None;
    }
    let kind = match (s, e) {
        (true, true) => Kind::Complete,
        (true, false) => Kind::First,
        (false, false) => Kind::Inter,
        (false, true) => Kind::End,
    };
    Some((kind, lt, (w & 0x0FFF) as usize))
}

pub fn header_word(kind: Kind, lt: u8, gse_len: usize) -> u16 {
    let se = match kind {
        Kind::Complete => 0xC000u16,
        Kind::First => 0x8000,
        Kind::Inter => 0x0000,
        Kind::End => 0x4000,
    };
    se | ((lt as u16 & 3) << 12) | (gse_len as u16 & 0x0FFF)
}

pub fn lt_label_len(lt: u8) -> usize {
    match lt {
        0 => 6,
        1 => 3,
        _ => 0,
    }
}

fn opt_ext_len(id: u16) -> Option<usize> {
    match id >> 8 {
        1 => Some(0),
        2 => Some(2),
        3 => Some(4),
        4 => Some(6),
        5 => Some(8),
        _ => None,
    }
}

/// Parse exactly one GSE packet at the start of `buf` (the packet is buf[..gse_len+2];
/// bytes beyond are ignored).
pub fn parse(buf: &[u8], mand: MandTable) -> Result<Parsed, WireErr> {
    if buf.len() < 2 {
        return Err(WireErr::TooShort);
    }
    let w = u16::from_be_bytes([buf[0], buf[1]]);
    let Some((kind, lt, gse_len)) = header_fields(w) else {
        return Err(WireErr::Padding);
    };
    if buf.len() < gse_len + 2 {
        return Err(WireErr::Truncated("packet"));
    }
    let pkt = &buf[..gse_len + 2];
    let mut o = 2usize;
    let mut take = |n: usize, what: &'static str| -> Result<&[u8], WireErr> {
        if o + n > pkt.len() {
            return Err(WireErr::Truncated(what));
        }
        let s = &pkt[o..o + n];
        o += n;
        Ok(s)
    };
    let mut p = Parsed {
        kind,
        lt,
        gse_len,
        frag_id: None,
        total_len: None,
        type_field: None,
        label: vec![],
        exts: vec![],
        pt: None,
        payload: vec![],
        crc: None,
    };
    if kind != Kind::Complete {
        p.frag_id = Some(take(1, "frag id")?[0]);
    }
    if kind == Kind::First {
        let t = take(2, "total length")?;
        p.total_len = Some(u16::from_be_bytes([t[0], t[1]]));
    }
    if kind == Kind::Complete || kind == Kind::First {
        let t = take(2, "protocol type")?;
        let mut ty = u16::from_be_bytes([t[0], t[1]]);
        p.type_field = Some(ty);
        p.label = take(lt_label_len(lt), "label")?.to_vec();
        // extension chain
        loop {
            if ty >= 0x0600 {
                p.pt = Some(ty);
                break;
            }
            if ty < 0x0100 {
                match mand(ty) {
                    None => return Err(WireErr::UnknownMandatory(ty)),
                    Some((is_final, n)) => {
                        let d = take(n, "mandatory ext data")?.to_vec();
                        p.exts.push((ty, d));
                        if is_final {
                            p.pt = Some(ty);
                            break;
                        }
                    }
                }
            } else {
                let n = opt_ext_len(ty).unwrap();
                let d = take(n, "optional ext data")?.to_vec();
                p.exts.push((ty, d));
            }
            let t = take(2, "next type field")?;
            ty = u16::from_be_bytes([t[0], t[1]]);
        }
    }
    let rest = &pkt[o..];
    if kind == Kind::End {
        if rest.len() < 4 {
            return Err(WireErr::Truncated("crc"));
        }
        let c = &rest[rest.len() - 4..];
        p.crc = Some(u32::from_be_bytes([c[0], c[1], c[2], c[3]]));
        p.payload = rest[..rest.len() - 4].to_vec();
    } else {
        p.payload = rest.to_vec();
    }
    Ok(p)
}

/// Description of a packet to print (used by C20 and by hand-built packets everywhere).
#[derive(Clone, PartialEq, Eq, Debug)]
pub struct Desc {
    pub kind: Kind,
    pub lt: u8,
    pub frag_id: u8,
    pub total_len: u16,
    pub type_field: u16,
    pub label: Vec<u8>,
    /// raw bytes between label and payload (extension data and following type fields)
    pub ext_bytes: Vec<u8>,
    pub payload: Vec<u8>,
    pub crc: u32,
    /// override of the GSE length (None = consistent with the fields)
    pub gse_len: Option<usize>,
}

impl Desc {
    pub fn complete(l: Lbl, pt: u16, payload: &[u8]) -> Desc {
        Desc { kind: Kind::Complete, lt: l.lt(), frag_id: 0, total_len: 0, type_field: pt, label: l.bytes(), ext_bytes: vec![], payload: payload.to_vec(), crc: 0, gse_len: None }
    }
    pub fn first(l: Lbl, pt: u16, frag_id: u8, total_len: u16, payload: &[u8]) -> Desc {
        Desc { kind: Kind::First, lt: l.lt(), frag_id, total_len, type_field: pt, label: l.bytes(), ext_bytes: vec![], payload: payload.to_vec(), crc: 0, gse_len: None }
    }
    pub fn inter(frag_id: u8, payload: &[u8]) -> Desc {
        Desc { kind: Kind::Inter, lt: 3, frag_id, total_len: 0, type_field: 0, label: vec![], ext_bytes: vec![], payload: payload.to_vec(), crc: 0, gse_len: None }
    }
    pub fn end(frag_id: u8, payload: &[u8], crc: u32) -> Desc {
        Desc { kind: Kind::End, lt: 3, frag_id, total_len: 0, type_field: 0, label: vec![], ext_bytes: vec![], payload: payload.to_vec(), crc, gse_len: None }
    }
    pub fn print(&self) -> Vec<u8> {
        let mut body = vec![];
        if self.kind != Kind::Complete {
            body.push(self.frag_id);
        }
        if self.kind == Kind::First {
            body.extend_from_slice(&self.total_len.to_be_bytes());
        }
        if self.kind == Kind::Complete || self.kind == Kind::First {
            body.extend_from_slice(&self.type_field.to_be_bytes());
            body.extend_from_slice(&self.label);
            body.extend_from_slice(&self.ext_bytes);
        }
        body.extend_from_slice(&self.payload);
        if self.kind == Kind::End {
            body.extend_from_slice(&self.crc.to_be_bytes());
        }
        let gl = self.gse_len.unwrap_or(body.len());
        let mut out = header_word(self.kind, self.lt, gl).to_be_bytes().to_vec();
        out.extend_from_slice(&body);
        out
    }
}

/// Build a whole fragment train by hand (reference sender): first fragment carrying `cuts[0]`
/// payload bytes, intermediates, then an end fragment with the CRC. `label_on_wire` is what is
/// written (ReUse = nothing written, LT=11).
pub fn ref_train(label_on_wire: Lbl, pt: u16, frag_id: u8, pdu: &[u8], cuts: &[usize]) -> Vec<Vec<u8>> {
    let lb = label_on_wire.bytes();
    let total = (pdu.len() + 2 + lb.len()) as u16;
    let crc = crc_ref(total, pt, &lb, pdu);
    let mut out = vec![];
    let mut pos = 0usize;
    for (i, &c) in cuts.iter().enumerate() {
        let end = (pos + c).min(pdu.len());
        if i == 0 {
            out.push(Desc::first(label_on_wire, pt, frag_id, total, &pdu[pos..end]).print());
        } else {
            out.push(Desc::inter(frag_id, &pdu[pos..end]).print());
        }
        pos = end;
    }
    out.push(Desc::end(frag_id, &pdu[pos..], crc).print());
    out
}
