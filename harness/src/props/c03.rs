//! C03 — reassembly delivers only length- and CRC-verified PDUs.
//! The exact oracle is evaluated on the bytes actually received: a reference receiver is fed the
//! same byte strings and, whenever the real decap reports a completed PDU at an end fragment,
//! the reference concatenation must have the announced length, a matching reference CRC and be
//! exactly what is delivered.

use crate::common::*;
use crate::explore::*;
use crate::refm::{self, crc_ref, Desc, Kind};
use crate::report::{Acc, Report, Tier};
use crate::rx::*;
use crate::tx::*;
use dvb_gse_rust::crc::DefaultCrc;
use dvb_gse_rust::gse_encap::Encapsulator;
use rayon::prelude::*;
use serde_json::{json, Value};
use std::collections::BTreeMap;

#[derive(Clone, Debug, PartialEq, Eq, Hash)]
pub struct RefTrain {
    pub total: u16,
    pub pt: u16,
    pub label_wire: Vec<u8>,
    pub lt: u8,
    pub payload: Vec<u8>,
    pub exts: Vec<(u16, Vec<u8>)>,
}

/// reference receiver: what the arrival sequence defines, nothing implementation specific
#[derive(Clone, Debug, PartialEq, Eq, Hash, Default)]
pub struct RefRx {
    pub open: BTreeMap<u8, RefTrain>,
    /// smallest storage buffer the real receiver owns (0 = unknown: no first fragment is presumed acceptable)
    pub storage_hint: usize,
}

fn no_mand(_: u16) -> Option<(bool, usize)> {
    None
}

impl RefRx {
    /// feed one byte string together with the real receiver's answer; returns violated clauses
    pub fn feed(&mut self, bytes: &[u8], real: &DecapOut) -> Vec<(String, String)> {
        let mut v = vec![];
        let parsed = refm::parse(bytes, &no_mand);
        let delivered = matches!(real, DecapOut::Completed { .. });
        let Ok(p) = parsed else {
            if delivered {
                v.push(("delivers-unparsable".into(), format!("a byte string that does not parse as a GSE packet yields a delivered PDU: {}", real.brief())));
            }
            return v;
        };
        match p.kind {
            Kind::Complete => {} // not a reassembly
            Kind::First => {
                let f = p.frag_id.unwrap();
                // "the most recent first fragment of that fragment id": a first fragment the receiver accepted, and
                // also one it has no packet-intrinsic reason to refuse while a train is open on the same id (storage
                // is then available by stealing): well-formed, explicit non-zero label, no extension, a total length
                // that leaves something for later fragments, payload within the storage size
                let intrinsic_ok = p.lt != 3 && p.exts.is_empty() && p.pt.map_or(false, |t| t >= 0x0600) && !(p.lt == 0 && p.label.iter().all(|&b| b == 0)) && p.total_len.unwrap() as usize > p.payload.len() + 2 + p.label.len() && p.payload.len() <= self.storage_hint;
                if matches!(real, DecapOut::Fragmented { .. }) || (intrinsic_ok && self.open.contains_key(&f)) {
                    self.open.insert(f, RefTrain { total: p.total_len.unwrap(), pt: p.pt.unwrap_or(0), label_wire: p.label.clone(), lt: p.lt, payload: p.payload.clone(), exts: p.exts.clone() });
                }
                // a rejected first fragment: the older train (if any) is kept as the candidate
                if delivered {
                    v.push(("delivers-at-first".into(), format!("a first fragment yields a delivered PDU: {}", real.brief())));
                }
            }
            Kind::Inter => {
                let f = p.frag_id.unwrap();
                if let Some(t) = self.open.get_mut(&f) {
                    t.payload.extend_from_slice(&p.payload);
                    // canonical form: once longer than anything the first fragment announced, the
                    // train can never verify again; keep the length saturated so the space stays finite
                    let cap = t.total as usize + 1;
                    if t.payload.len() > cap {
                        t.payload.truncate(cap);
                    }
                }
                if delivered {
                    v.push(("delivers-at-intermediate".into(), format!("an intermediate fragment yields a delivered PDU: {}", real.brief())));
                }
            }
            Kind::End => {
                let f = p.frag_id.unwrap();
                let t = self.open.remove(&f);
                if let DecapOut::Completed { buf, meta, .. } = real {
                    match t {
                        None => v.push(("delivers-without-train".into(), format!("end fragment of id {} delivered although no first fragment of that id is pending: {}", f, real.brief()))),
                        Some(mut t) => {
                            t.payload.extend_from_slice(&p.payload);
                            let want_len = (t.total as usize).checked_sub(2 + t.label_wire.len());
                            if want_len != Some(t.payload.len()) {
                                v.push(("length-not-verified".into(), format!("delivered although the concatenated payloads have {} bytes and the first fragment announced total length {} (= {:?} PDU bytes)", t.payload.len(), t.total, want_len)));
                            }
                            let c = crc_ref(t.total, t.pt, &t.label_wire, &t.payload);
                            if Some(c) != p.crc {
                                v.push(("crc-not-verified".into(), format!("delivered although CRC-32(total length, protocol type, label, concatenation) = {:#010x} and the trailer is {:?}", c, p.crc)));
                            }
                            if meta.pdu_len != t.payload.len() || buf.len() < t.payload.len() || buf[..t.payload.len().min(buf.len())] != t.payload[..] {
                                v.push(("delivered-bytes-differ".into(), format!("delivered bytes {} differ from the concatenation of the received payloads {}", hexs(&buf[..meta.pdu_len.min(buf.len())]), hexs(&t.payload))));
                            }
                            if meta.pt != t.pt {
                                v.push(("delivered-ptype-differs".into(), format!("delivered protocol type {:#06x}, first fragment carried {:#06x}", meta.pt, t.pt)));
                            }
                            if meta.exts != t.exts {
                                v.push(("delivered-extensions-differ".into(), format!("delivered extension list {:?}, first fragment carried {:?}", meta.exts, t.exts)));
                            }
                            if t.lt != 3 && meta.label.bytes() != t.label_wire {
                                v.push(("delivered-label-differs".into(), format!("delivered label {}, first fragment carried {}", meta.label.short(), hex(&t.label_wire))));
                            }
                        }
                    }
                }
            }
        }
        v
    }
}

/// run a sequence of byte strings through a real receiver (state given) with the oracle
pub fn run_seq(rx0: &RxS, ref0: &RefRx, seq: &[Vec<u8>], acc: &mut Acc) -> (Vec<(String, String)>, usize) {
    let mut d = rx0.build(DefaultCrc {}, TableMgr::none());
    let mut r = ref0.clone();
    let mut viols = vec![];
    let mut delivered = 0;
    for pkt in seq {
        let out = do_decap(&mut d, pkt);
        acc.transitions += 1;
        acc.calls += 1;
        acc.compared += 1;
        if let DecapOut::Panic(p) = &out {
            viols.push((format!("panic|{}", Panicked(p.clone()).coarse()), format!("decap panics at {}", p)));
            break;
        }
        viols.extend(r.feed(pkt, &out));
        match out {
            DecapOut::Completed { buf, .. } => {
                delivered += 1;
                let _ = d.provision_storage(vec![0u8; buf.len()].into_boxed_slice());
            }
            DecapOut::Err { handed_back: Some(b), .. } => {
                let _ = d.provision_storage(vec![0u8; b.len()].into_boxed_slice());
            }
            _ => {}
        }
    }
    (viols, delivered)
}

struct RealTrain {
    desc: String,
    prefix: Vec<Vec<u8>>,
    pkts: Vec<Vec<u8>>,
    /// for each packet: byte ranges that are CRC-protected (total length, ptype, label, payload, trailer)
    pdu: Vec<u8>,
}

fn real_trains(tier: Tier) -> Vec<RealTrain> {
    let mut v = vec![];
    // (pdu length, fragments, end fragment carries only the CRC)
    let shapes: Vec<(usize, usize, bool)> = if tier.thorough() { vec![(5, 2, false), (12, 3, false), (12, 5, false), (40, 4, false), (40, 2, false), (12, 3, true), (40, 4, true)] } else { vec![(5, 2, false), (12, 3, false), (40, 4, false), (12, 3, true)] };
    for &(p, f, crc_only_end) in &shapes {
        for (li, lk) in ["6B", "3B", "BC", "reuse"].iter().enumerate() {
            let l = match *lk {
                "6B" => L6A,
                "3B" => L3A,
                "BC" => Lbl::Bcast,
                _ => L6B,
            };
            let pd = pdu(p, (li % 4) as u8);
            let mut enc = Encapsulator::new(DefaultCrc {});
            let mut prefix = vec![];
            if *lk == "reuse" {
                let mut s = [0u8; 32];
                let n = do_encap(&mut enc, &[0x42], 0, 0x0800, l, &mut s).len().unwrap();
                prefix.push(s[..(n).min(s.len())].to_vec());
            }
            let lw = if *lk == "reuse" { 0 } else { l.wire_len() };
            let k1 = p / f;
            let mut buf = vec![0u8; 7 + lw + k1];
            let fid = (li as u8) * 3 + 1;
            // every second shape is sent through encap_ext with one optional extension (2 data bytes)
            let with_ext = (p + f + li) % 2 == 1;
            let exts: Vec<(u16, Vec<u8>)> = if with_ext { vec![(0x0202, vec![0xE1, 0xE2])] } else { vec![] };
            if with_ext {
                buf = vec![0u8; 7 + lw + k1 + 4];
            }
            let first = if with_ext { do_encap_ext(&mut enc, &pd, fid, 0x86DD, l, &mut buf, &exts) } else { do_encap(&mut enc, &pd, fid, 0x86DD, l, &mut buf) };
            let EncOut::Fragmented(n, mut ctx) = first else { continue };
            let mut pkts = vec![buf[..(n).min(buf.len())].to_vec()];
            let mut done = false;
            for j in 1..f {
                let rem = p - ctx.pos as usize;
                // with crc_only_end the last-but-one buffer has room for all remaining payload but not for
                // the CRC (remaining+3 .. remaining+6 bytes): the end fragment then carries the CRC alone
                let b = if crc_only_end && j + 2 == f { 3 + rem + 2 } else if j + 1 < f { 3 + (rem / (f - j)).max(1) } else { 3 + rem + 4 };
                let mut bb = vec![0u8; b];
                match do_encap_frag(&enc, &pd, ctx, &mut bb) {
                    EncOut::Fragmented(n2, c2) => {
                        pkts.push(bb[..(n2).min(bb.len())].to_vec());
                        ctx = c2;
                    }
                    EncOut::Completed(n2) => {
                        pkts.push(bb[..(n2).min(bb.len())].to_vec());
                        done = true;
                        break;
                    }
                    _ => break,
                }
            }
            if !done {
                // The property is about the receiver: a sender that refuses these buffer sizes (its choice) must not
                // leave the receiver unexamined, so the same shape is printed by the reference sender instead.
                let inter = if crc_only_end { f - 1 } else { f - 2 };
                let mut cuts = vec![k1];
                let rest = p - k1;
                for j in 0..inter {
                    cuts.push(if crc_only_end && j + 1 == inter { rest } else { (rest / (inter + 1)).max(1) });
                }
                pkts = refm::ref_train(if *lk == "reuse" { Lbl::ReUse } else { l }, 0x86DD, fid, &pd, &cuts);
            }
            v.push(RealTrain { desc: format!("pdu_len={} label={} fragments={} frag_id={}{}", p, lk, pkts.len(), fid, if crc_only_end { " crc-only-end" } else { "" }).replace("fragments=", if with_ext { "ext=0x0202 fragments=" } else { "fragments=" }), prefix, pkts, pdu: pd });
        }
    }
    v
}

#[derive(Clone, Debug)]
enum Fault {
    Drop(usize),
    Dup(usize),
    Swap(usize),
    Xor { pkt: usize, bit: usize, pattern: u64, len: usize },
    Truncate { pkt: usize, keep: usize },
    SetByte { pkt: usize, off: usize, val: u8, what: &'static str },
    SetBytes { pkt: usize, off: usize, val: Vec<u8>, what: &'static str },
    /// after the other faults: rewrite the trailer of the last end fragment so that it is the correct
    /// CRC of what was actually received (a syntactically valid train not produced by encap)
    FixCrc,
}

impl Fault {
    fn class(&self) -> String {
        match self {
            Fault::Drop(_) => "drop".into(),
            Fault::Dup(_) => "dup".into(),
            Fault::Swap(_) => "swap".into(),
            Fault::Xor { len, .. } => if *len == 1 { "bitflip".into() } else { "burst".to_string() },
            Fault::Truncate { .. } => "truncate".into(),
            Fault::SetByte { what, .. } | Fault::SetBytes { what, .. } => what.to_string(),
            Fault::FixCrc => "crc-recomputed".into(),
        }
    }
    fn apply(&self, seq: &mut Vec<Vec<u8>>) {
        match self {
            Fault::Drop(i) => {
                if *i < seq.len() {
                    seq.remove(*i);
                }
            }
            Fault::Dup(i) => {
                if *i < seq.len() {
                    let p = seq[*i].clone();
                    seq.insert(*i, p);
                }
            }
            Fault::Swap(i) => {
                if *i + 1 < seq.len() {
                    seq.swap(*i, *i + 1);
                }
            }
            Fault::Xor { pkt, bit, pattern, len } => {
                if *pkt < seq.len() {
                    for k in 0..*len {
                        if (pattern >> k) & 1 == 1 {
                            let b = bit + k;
                            if b / 8 < seq[*pkt].len() {
                                seq[*pkt][b / 8] ^= 0x80 >> (b % 8);
                            }
                        }
                    }
                }
            }
            Fault::Truncate { pkt, keep } => {
                if *pkt < seq.len() {
                    seq[*pkt].truncate(*keep);
                }
            }
            Fault::SetByte { pkt, off, val, .. } => {
                if *pkt < seq.len() && *off < seq[*pkt].len() {
                    seq[*pkt][*off] = *val;
                }
            }
            Fault::SetBytes { pkt, off, val, .. } => {
                if *pkt < seq.len() && off + val.len() <= seq[*pkt].len() {
                    seq[*pkt][*off..off + val.len()].copy_from_slice(val);
                }
            }
            Fault::FixCrc => {
                let parsed: Vec<Option<refm::Parsed>> = seq.iter().map(|p| refm::parse(p, &no_mand).ok()).collect();
                if let Some(e) = (0..seq.len()).rev().find(|&i| parsed[i].as_ref().map(|p| p.kind == Kind::End).unwrap_or(false)) {
                    let id = parsed[e].as_ref().unwrap().frag_id;
                    if let Some(f) = (0..e).rev().find(|&i| parsed[i].as_ref().map(|p| p.kind == Kind::First && p.frag_id == id).unwrap_or(false)) {
                        let fp = parsed[f].as_ref().unwrap();
                        let mut cat = fp.payload.clone();
                        for i in f + 1..=e {
                            if let Some(p) = &parsed[i] {
                                if (p.kind == Kind::Inter || p.kind == Kind::End) && p.frag_id == id {
                                    cat.extend_from_slice(&p.payload);
                                }
                            }
                        }
                        let c = crc_ref(fp.total_len.unwrap_or(0), fp.pt.unwrap_or(0), &fp.label, &cat);
                        let n = seq[e].len();
                        if n >= 4 {
                            seq[e][n - 4..].copy_from_slice(&c.to_be_bytes());
                        }
                    }
                }
            }
        }
    }
}

fn single_faults(t: &RealTrain, max_exh_burst: usize, long_bursts: bool) -> Vec<Fault> {
    let mut v = vec![];
    let n = t.pkts.len();
    for i in 0..n {
        v.push(Fault::Drop(i));
        v.push(Fault::Dup(i));
        if i + 1 < n {
            v.push(Fault::Swap(i));
        }
        let bits = t.pkts[i].len() * 8;
        for bit in 0..bits {
            // every burst pattern of length L <= max_exh_burst: first and last bit set, all inner combinations
            for len in 1..=max_exh_burst {
                if bit + len > bits {
                    break;
                }
                if len == 1 {
                    v.push(Fault::Xor { pkt: i, bit, pattern: 1, len });
                } else {
                    let inner = len - 2;
                    for m in 0..(1u64 << inner) {
                        let pattern = 1 | (m << 1) | (1u64 << (len - 1));
                        v.push(Fault::Xor { pkt: i, bit, pattern, len });
                    }
                }
            }
            if long_bursts {
                for len in (max_exh_burst + 1)..=32 {
                    if bit + len > bits {
                        break;
                    }
                    let ones = if len == 64 { u64::MAX } else { (1u64 << len) - 1 };
                    let ends = 1 | (1u64 << (len - 1));
                    let alt = 0x5555_5555_5555_5555u64 & ones | ends;
                    let mid = ends | (1u64 << (len / 2));
                    for pattern in [ones, ends, alt, mid] {
                        v.push(Fault::Xor { pkt: i, bit, pattern, len });
                    }
                }
            }
        }
        for keep in 0..t.pkts[i].len() {
            v.push(Fault::Truncate { pkt: i, keep });
        }
        for val in 0..=255u8 {
            if t.pkts[i][2] != val {
                v.push(Fault::SetByte { pkt: i, off: 2, val, what: "frag-id" });
            }
        }
    }
    // total length of the first fragment
    let tl = u16::from_be_bytes([t.pkts[0][3], t.pkts[0][4]]);
    for val in [0u16, 1, tl.wrapping_add(1), tl.wrapping_sub(1), tl.wrapping_add(256), tl.wrapping_sub(256), 0xFFFF] {
        if val != tl {
            v.push(Fault::SetBytes { pkt: 0, off: 3, val: val.to_be_bytes().to_vec(), what: "total-length" });
        }
    }
    // CRC trailer of the end fragment
    let e = n - 1;
    let el = t.pkts[e].len();
    let crc = u32::from_be_bytes(t.pkts[e][el - 4..].try_into().unwrap());
    let mut crcs = vec![0u32, !crc, crc.wrapping_add(1), crc.wrapping_sub(1)];
    for k in 0..4 {
        crcs.push(crc & !(0xFFu32 << (8 * k)));
    }
    for c in crcs {
        if c != crc {
            v.push(Fault::SetBytes { pkt: e, off: el - 4, val: c.to_be_bytes().to_vec(), what: "crc-field" });
        }
    }
    v
}

fn part_a(rep: &Report, tier: Tier) {
    let trains = real_trains(tier);
    let max_burst = if tier.thorough() { 16 } else { 10 };
    let rx0 = RxS::new(2, 64, &[64, 64, 64]);
    for (ti, t) in trains.iter().enumerate() {
        if rep.over_time() {
            rep.cap("A: wall cap");
            break;
        }
        // receiver and reference after the prefix
        let mut acc0 = Acc::default();
        let mut d = rx0.build(DefaultCrc {}, TableMgr::none());
        for p in &t.prefix {
            if let DecapOut::Completed { buf, .. } = do_decap(&mut d, p) {
                let _ = d.provision_storage(vec![0u8; buf.len()].into_boxed_slice());
            }
        }
        let rxp = RxS::of(&d);
        let refp = RefRx { storage_hint: 64, ..RefRx::default() };
        // the unfaulted train must be delivered (sanity, otherwise everything below is vacuous)
        let (v0, del0) = run_seq(&rxp, &refp, &t.pkts, &mut acc0);
        if del0 != 1 || !v0.is_empty() {
            rep.violation("C03|A|unfaulted-train-not-delivered", ti as u64, || (format!("train {} without any fault: {} deliveries, oracle {:?}", t.desc, del0, v0), json!({"train": t.desc, "packets": t.pkts.iter().map(|p| hex(p)).collect::<Vec<_>>()})));
            continue;
        }
        rep.merge(acc0);
        let singles = single_faults(t, max_burst, tier.thorough());
        let run = |faults: &[&Fault], acc: &mut Acc, rank: u64| {
            let mut seq = t.pkts.clone();
            for f in faults {
                f.apply(&mut seq);
            }
            acc.states += 1;
            let (viols, delivered) = run_seq(&rxp, &refp, &seq, acc);
            let cls: Vec<String> = faults.iter().map(|f| f.class()).collect();
            acc.outcome(&format!("A:{}:delivered{}", cls.join("+"), delivered));
            for (cl, txt) in viols {
                rep.violation(&format!("C03|A|{}|{}", cl, cls.join("+")), rank, || {
                    (format!("train {} with fault(s) {:?}: {}", t.desc, faults, txt), json!({"train": t.desc, "faults": format!("{:?}", faults), "prefix": t.prefix.iter().map(|p| hex(p)).collect::<Vec<_>>(), "received": seq.iter().map(|p| hex(p)).collect::<Vec<_>>(), "original_pdu": hex(&t.pdu)}))
                });
            }
        };
        singles.par_chunks(256).enumerate().for_each(|(ci, chunk)| {
            let mut acc = Acc::default();
            for (k, f) in chunk.iter().enumerate() {
                run(&[f], &mut acc, (ci * 256 + k) as u64);
            }
            rep.merge(acc);
        });
        // double faults: all ordered pairs over drop/dup/swap/one-bit flips
        let do_double = tier.thorough() || ti < 4;
        let mut n_double = 0u64;
        if do_double {
            let menu: Vec<&Fault> = singles.iter().filter(|f| matches!(f, Fault::Drop(_) | Fault::Dup(_) | Fault::Swap(_)) || matches!(f, Fault::Xor { len: 1, .. })).collect();
            n_double = (menu.len() * menu.len()) as u64;
            (0..menu.len()).into_par_iter().for_each(|i| {
                if rep.over_time() {
                    rep.cap("A double faults: wall cap");
                    return;
                }
                let mut acc = Acc::default();
                for j in 0..menu.len() {
                    run(&[menu[i], menu[j]], &mut acc, (1_000_000 + i * 1000 + j) as u64);
                }
                rep.merge(acc);
            });
        }
        // every structural / length fault followed by a recomputation of the CRC over what is received
        let fix = Fault::FixCrc;
        let structural: Vec<&Fault> = singles.iter().filter(|f| matches!(f, Fault::Drop(_) | Fault::Dup(_) | Fault::Swap(_) | Fault::Truncate { .. }) || matches!(f, Fault::SetBytes { what: "total-length", .. }) || matches!(f, Fault::SetByte { what: "frag-id", .. })).collect();
        let n_fix = structural.len() as u64 * 2;
        structural.par_chunks(64).enumerate().for_each(|(ci, chunk)| {
            let mut acc = Acc::default();
            for (k, f) in chunk.iter().enumerate() {
                run(&[f, &fix], &mut acc, (3_000_000 + ci * 64 + k) as u64);
                // twice the same structural fault (e.g. an intermediate fragment received three times)
                run(&[f, f, &fix], &mut acc, (4_000_000 + ci * 64 + k) as u64);
            }
            rep.merge(acc);
        });
        rep.part(json!({"part":"A fault enumeration","train":t.desc,"single_faults":singles.len(),"double_faults":n_double,"faults_followed_by_crc_recomputation":n_fix,"exhaustive_burst_length":max_burst}));
        if ti < 3 {
            rep.sample(ti as u64, || json!({"train": t.desc, "packets": t.pkts.iter().map(|p| hex(p)).collect::<Vec<_>>(), "example_fault": format!("{:?}", singles[singles.len() / 2])}));
        }
    }
    if !tier.thorough() {
        rep.assume("burst patterns are enumerated exhaustively up to 10 bits in the quick tier (14 in thorough); longer bursts up to 32 bits use 4 patterns per (offset, length) in thorough only: 2^30 patterns per offset are out of reach — their detection follows from C12 plus this exact oracle and the degree-32 generator (external mathematics)");
    } else {
        rep.assume("burst patterns are enumerated exhaustively up to 14 bits; bursts of 15..=32 bits use 4 patterns per (offset, length): 2^30 patterns per offset are out of reach — their detection follows from C12 plus this exact oracle and the degree-32 generator (external mathematics)");
    }
}

// ---------------------------------------------------------------------------------------
// B: state graph over hand-built fragments
// ---------------------------------------------------------------------------------------

#[derive(Clone, Debug, PartialEq, Eq, Hash)]
pub struct BSt {
    rx: RxS,
    r: RefRx,
}

pub struct BSys {
    alphabet: Vec<(String, Vec<u8>)>,
}

fn b_alphabet() -> Vec<(String, Vec<u8>)> {
    let x = [0x11u8, 0x12, 0x13, 0x14, 0x15, 0x16];
    let y = [0x21u8, 0x22, 0x23, 0x24, 0x25, 0x26];
    let mut v = vec![];
    let tot = |l: Lbl| (6 + 2 + l.wire_len()) as u16;
    let cx = crc_ref(tot(L3A), 0x0800, &L3A.bytes(), &x);
    let cy = crc_ref(tot(L3A), 0x0800, &L3A.bytes(), &y);
    // same label and protocol type for X and Y so that only the payload bytes distinguish them
    v.push(("first-X-id0".to_string(), Desc::first(L3A, 0x0800, 0, tot(L3A), &x[..2]).print()));
    v.push(("first-Y-id0".to_string(), Desc::first(L3A, 0x0800, 0, tot(L3A), &y[..2]).print()));
    v.push(("first-X-id1".to_string(), Desc::first(L3A, 0x0800, 1, tot(L3A), &x[..2]).print()));
    v.push(("first-Y-alias-id2".to_string(), Desc::first(L3A, 0x0800, 2, tot(L3A), &y[..2]).print()));
    v.push(("inter-X-id0".to_string(), Desc::inter(0, &x[2..4]).print()));
    v.push(("inter-Y-id0".to_string(), Desc::inter(0, &y[2..4]).print()));
    v.push(("inter-X-id1".to_string(), Desc::inter(1, &x[2..4]).print()));
    v.push(("inter-Y-id2".to_string(), Desc::inter(2, &y[2..4]).print()));
    v.push(("end-X-id0".to_string(), Desc::end(0, &x[4..], cx).print()));
    v.push(("end-Y-id0".to_string(), Desc::end(0, &y[4..], cy).print()));
    v.push(("end-X-id0-crc-of-Y".to_string(), Desc::end(0, &x[4..], cy).print()));
    v.push(("end-X-id0-short".to_string(), Desc::end(0, &x[5..], cx).print()));
    v.push(("end-X-id1".to_string(), Desc::end(1, &x[4..], cx).print()));
    v.push(("end-Y-id2".to_string(), Desc::end(2, &y[4..], cy).print()));
    // a first fragment whose total length promises 4 PDU bytes and an end closing it after 4 bytes
    let c4 = crc_ref(4 + 2 + 3, 0x0800, &L3A.bytes(), &x[..4]);
    v.push(("first-X4-id0".to_string(), Desc::first(L3A, 0x0800, 0, 4 + 2 + 3, &x[..2]).print()));
    v.push(("end-X4-id0".to_string(), Desc::end(0, &x[2..4], c4).print()));
    // CRC-only end fragments whose trailer is the correct CRC of a concatenation that does NOT have the
    // announced length: first+inter (2 bytes short), first+inter+inter (overshoot by 0: X complete is 6),
    // first+inter+inter+inter (overshoot)
    let cat = |parts: &[&[u8]]| -> Vec<u8> { parts.iter().flat_map(|p| p.iter().cloned()).collect() };
    let short = cat(&[&x[..2], &x[2..4]]);
    let over = cat(&[&x[..2], &x[2..4], &x[2..4], &x[2..4]]);
    let over1 = cat(&[&x[..2], &x[2..4], &x[2..4]]);
    v.push(("end-id0-crc-only-matching-short".to_string(), Desc::end(0, &[], crc_ref(tot(L3A), 0x0800, &L3A.bytes(), &short)).print()));
    v.push(("end-id0-crc-only-matching-overshoot8".to_string(), Desc::end(0, &[], crc_ref(tot(L3A), 0x0800, &L3A.bytes(), &over)).print()));
    v.push(("end-id0-crc-only-matching-6-of-dup".to_string(), Desc::end(0, &[], crc_ref(tot(L3A), 0x0800, &L3A.bytes(), &over1)).print()));
    // a first fragment announcing a total length smaller than protocol type + label, and its CRC-only end
    // label accounting: a complete packet to set the receiver's label memory, a re-use first fragment whose
    // total length COUNTS a 3-byte label (trailer = CRC over that label), and an explicit-label first fragment
    // whose total length does NOT count its label (trailer = CRC over an empty label)
    v.push(("complete-3A".to_string(), Desc::complete(L3A, 0x0800, &[0x7A]).print()));
    v.push(("first-X-id0-reuse-total-counts-label".to_string(), Desc::first(Lbl::ReUse, 0x0800, 0, tot(L3A), &x[..2]).print()));
    v.push(("end-X-id0-crc-with-label".to_string(), Desc::end(0, &x[2..], crc_ref(tot(L3A), 0x0800, &L3A.bytes(), &x)).print()));
    v.push(("first-X-id0-3A-total-without-label".to_string(), Desc::first(L3A, 0x0800, 0, tot(Lbl::Bcast), &x[..2]).print()));
    v.push(("end-X-id0-crc-without-label".to_string(), Desc::end(0, &x[2..], crc_ref(tot(Lbl::Bcast), 0x0800, &[], &x)).print()));
    // an empty PDU sent as a train: first fragment without payload announcing total length = protocol type + label,
    // CRC-only end fragments with the right trailer, a wrong one, and the trailer of the same train under another label
    v.push(("first-EMPTY-id0".to_string(), Desc::first(L3A, 0x0800, 0, 5, &[]).print()));
    v.push(("end-id0-crc-only-of-EMPTY".to_string(), Desc::end(0, &[], crc_ref(5, 0x0800, &L3A.bytes(), &[])).print()));
    v.push(("end-id0-crc-only-garbage".to_string(), Desc::end(0, &[], 0xDEAD_BEEF).print()));
    v.push(("end-id0-crc-only-of-EMPTY-other-label".to_string(), Desc::end(0, &[], crc_ref(5, 0x0800, &L3B.bytes(), &[])).print()));
    // a valid first fragment without any payload byte: it restarts its fragment id like any other
    v.push(("first-X-id0-no-payload".to_string(), Desc::first(L3A, 0x0800, 0, tot(L3A), &[]).print()));
    // a first fragment carrying an optional extension
    let mut d = Desc::first(L3A, 0x0202, 1, tot(L3A), &x[..2]);
    d.ext_bytes = vec![0xE1, 0xE2, 0x08, 0x00];
    v.push(("first-X-id1-opt-ext".to_string(), d.print()));
    v.push(("first-X-id0-total1".to_string(), Desc::first(L3A, 0x0800, 0, 1, &x[..2]).print()));
    v.push(("end-id0-crc-only-matching-total1".to_string(), Desc::end(0, &[], crc_ref(1, 0x0800, &L3A.bytes(), &x[..2])).print()));
    v
}

impl System for BSys {
    type State = BSt;
    type Op = usize;
    fn init(&self) -> Vec<BSt> {
        vec![BSt { rx: RxS::new(2, 8, &[8, 8, 8]), r: RefRx { storage_hint: 8, ..RefRx::default() } }]
    }
    fn ops(&self, _s: &BSt) -> Vec<usize> {
        (0..self.alphabet.len()).collect()
    }
    fn step(&self, s: &BSt, op: &usize, acc: &mut Acc) -> StepOut<BSt> {
        let (name, bytes) = &self.alphabet[*op];
        let (out, mut rx2) = step_decap(&s.rx, &DefaultCrc {}, &TableMgr::none(), bytes);
        acc.calls += 1;
        acc.compared += 1;
        acc.outcome(&format!("B:{}:{}", name.split('-').next().unwrap(), out.class()));
        let mut r = s.r.clone();
        let mut viols = vec![];
        if let DecapOut::Panic(p) = &out {
            viols.push((format!("C03|B|panic|{}", Panicked(p.clone()).coarse()), format!("decap({}) panics at {}", name, p)));
            return StepOut { next: None, viols };
        }
        for (cl, txt) in r.feed(bytes, &out) {
            viols.push((format!("C03|B|{}", cl), format!("feeding {}: {}", name, txt)));
        }
        match &out {
            DecapOut::Completed { buf, .. } => rx2.mem.free.push(vec![0u8; buf.len()]),
            DecapOut::Err { handed_back: Some(b), .. } => rx2.mem.free.push(vec![0u8; b.len()]),
            _ => {}
        }
        crate::rxmodel::normalise(&mut rx2);
        StepOut { next: Some(BSt { rx: rx2, r }), viols }
    }
    fn op_json(&self, op: &usize) -> Value {
        json!({"feed": self.alphabet[*op].0, "bytes": hex(&self.alphabet[*op].1)})
    }
}

pub fn b_sys() -> BSys {
    BSys { alphabet: b_alphabet() }
}

pub fn run(tier: Tier) -> i32 {
    let rep = Report::new("C03", tier);
    rep.set_rule("A: fragment trains from the real encapsulator (PDUs of 5/12/40 bytes x labels 6B/3B/broadcast/re-use x 2..5 fragments) with EVERY single fault of the menu (drop, duplicate, swap, every single-bit flip incl. header bits, every burst pattern up to 10 (thorough 14) bits at every bit offset, truncation at every byte, every fragment id value, listed total-length and CRC replacements) and all ordered pairs of drop/dup/swap/bit-flip faults (quick: first four trains), plus every structural/length/frag-id fault (once and twice) followed by a recomputation of the CRC trailer over what is actually received; trains include ones whose end fragment carries the CRC alone; B: breadth-first search over all sequences of 32 hand-built, syntactically valid fragments (incl. CRC-only end fragments whose trailer matches a concatenation of the wrong length) (trains of two different PDUs spliced on one fragment id, another id, an aliasing id, right/wrong CRC and lengths) to closure with state merging on (receiver snapshot, reference state). Oracle in both: exact 'delivered only if' evaluated on the received bytes by a reference receiver + reference CRC. distinct = fault class x deliveries / packet x outcome");
    part_a(&rep, tier);
    directed_long(&rep);
    let sys = b_sys();
    let depth = 64;
    let ex = explore(&sys, &Limits { max_states: 5_000_000, max_depth: depth }, &rep, "B spliced trains");
    let delivered_states = ex.states.len();
    let i = ex.states.len() - 1;
    rep.sample(1000, || json!({"B_states": delivered_states, "one_history": ex.path(i).iter().map(|o| sys.op_json(o)).collect::<Vec<_>>()}));
    rep.finish(true)
}

/// Directed trains longer than 65535 bytes (storage of 70000 bytes): the announced total length is
/// small, the concatenation is 65536 + k bytes long so that a 16-bit length comparison wraps, and
/// the trailer is the correct CRC of what is received.
fn directed_long(rep: &Report) {
    let mut acc = Acc::default();
    // Variant W: the 65536th byte arrives in an INTERMEDIATE fragment (a 16-bit received-length counter would wrap there
    // and the write cursor would return to the start of the storage); the train then goes on for `tail` more bytes and
    // the trailer is the CRC of what a wrapped receiver would find in its storage (the last `tail` bytes over the start
    // of the stream). The concatenation has 65536 + tail bytes, the first fragment announced tail + 2 + label: no delivery.
    for (l, lname) in [(L6A, "6B"), (Lbl::Bcast, "BC")] {
        let lw = l.wire_len();
        for tail in [3usize, 40, 2048] {
            let n = 65536 + tail;
            let t = (tail + 2 + lw) as u16;
            let pd: Vec<u8> = (0..n).map(|i| (i % 251) as u8).collect();
            let mut seq: Vec<Vec<u8>> = vec![Desc::first(l, 0x0800, 0, t, &pd[..1]).print()];
            let mut pos = 1usize;
            let mut cross_end = 0usize; // stream offset right behind the fragment that carries the 65536th byte
            while pos < 65536 + tail - 2 {
                let k = (65536 + tail - 2 - pos).min(4094);
                seq.push(Desc::inter(0, &pd[pos..pos + k]).print());
                if pos < 65536 && pos + k >= 65536 {
                    cross_end = pos + k;
                }
                pos += k;
            }
            // what a receiver whose 16-bit counter wrapped in that fragment holds: the fragment itself was still written at
            // its true (high) offset, the counter then reads cross_end - 65536 and everything later lands from there on
            let w0 = cross_end - 65536;
            let mut stor = pd[..tail].to_vec();
            stor[w0..tail].copy_from_slice(&pd[cross_end..]);
            let crc = crc_ref(t, 0x0800, &l.bytes(), &stor);
            seq.push(Desc::end(0, &pd[pos..], crc).print());
            let rx0 = RxS::new(1, 70000, &[70000]);
            acc.states += 1;
            let (viols, delivered) = run_seq(&rx0, &RefRx::default(), &seq, &mut acc);
            acc.outcome(&format!("directed-long-wrap:{}:delivered{}", lname, delivered));
            for (cl, txt) in viols {
                rep.violation(&format!("C03|directed-long|{}|{}|wrap-at-intermediate", cl, lname), tail as u64, || (format!("train of {} bytes announcing total length {} (label {}), the 65536th byte arriving in an intermediate fragment, trailer = CRC of what a wrapped 16-bit counter leaves in the storage: {}", n, t, lname, txt), json!({"label": lname, "announced_total_length": t, "received_pdu_bytes": n, "packets": seq.len(), "storage": 70000})));
            }
        }
    }
    for (l, lname) in [(L6A, "6B"), (L3A, "3B"), (Lbl::Bcast, "BC")] {
        let lw = l.wire_len();
        for extra in [0usize, 1, 2, 5] {
            // concatenation of n bytes with (n + 2 + lw) mod 65536 == t, t small but > first payload
            let n = 65536 + extra + 1;
            let t = ((n + 2 + lw) % 65536) as u16;
            let pd: Vec<u8> = (0..n).map(|i| (i % 253) as u8).collect();
            let mut seq: Vec<Vec<u8>> = vec![Desc::first(l, 0x0800, 0, t, &pd[..1]).print()];
            let mut pos = 1usize;
            // intermediates up to exactly 65535 bytes received, then the end fragment carries the rest
            while pos + 4094 <= 65535 {
                seq.push(Desc::inter(0, &pd[pos..pos + 4094]).print());
                pos += 4094;
            }
            if pos < 65535 {
                seq.push(Desc::inter(0, &pd[pos..65535]).print());
                pos = 65535;
            }
            let crc = crc_ref(t, 0x0800, &l.bytes(), &pd);
            seq.push(Desc::end(0, &pd[pos..], crc).print());
            let rx0 = RxS::new(1, 70000, &[70000]);
            acc.states += 1;
            let (viols, delivered) = run_seq(&rx0, &RefRx::default(), &seq, &mut acc);
            acc.outcome(&format!("directed-long:{}:delivered{}", lname, delivered));
            for (cl, txt) in viols {
                rep.violation(&format!("C03|directed-long|{}|{}", cl, lname), extra as u64, || (format!("train of {} bytes announcing total length {} (label {}), trailer = CRC of what is received: {}", n, t, lname, txt), json!({"label": lname, "announced_total_length": t, "received_pdu_bytes": n, "packets": seq.len(), "storage": 70000})));
            }
        }
    }
    rep.merge(acc);
    rep.part(json!({"part":"directed: trains longer than 65535 bytes whose 16-bit length sum wraps onto the announced total length","cases":12}));
}
