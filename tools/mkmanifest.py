#!/usr/bin/env python3
"""Regenerates /verif/MANIFEST.json from the table below (kept in one place so the manifest
is valid at all times). Usage: python3 tools/mkmanifest.py"""
import json, subprocess

props = [json.loads(l) for l in open('/verif/properties.jsonl')]

# id -> (technique, level text, level note)
CHECKS = {
 "C04": ("explicit-state BFS to closure of real sender x real receiver (lock-step) and of the receiver alone, with ghost intended-label / nearest-start-label monitors",
         "A: the product of the real Encapsulator and real Decapsulator, every produced packet fed at once, is closed under send(5 labels x complete / encap_ext complete / first fragment on two ids via encap and encap_ext / 4 failing calls), zero label, continuation, reset of both sides, disable, enable, enable-with-max; every status the receiver reports must carry the label the sender intended and every PDU with an explicit/broadcast label must be delivered. B: the receiver alone is closed under 27 packets (all label kinds incl. re-use on complete and first fragments, continuation packets, rejected and malformed start packets, padding) and reset; a resolved re-use label must equal the label of the nearest preceding start/complete packet of the frame.",
         "trusted: ghost monitors (wire_last, intended label); label alphabet of 5 letters; 2-fragment trains"),
 "C13": ("exhaustive enumeration: constructor over all ids x lengths; all extension chains x protocol types x labels x every buffer size through real encap_ext, reference parser, real receivers with full/partial/no knowledge",
         "Extension::new is executed for all 65536 ids x data lengths 0..=10. Every chain of 1..=3 (thorough 1..=4) extensions over a 10-letter alphabet x 7 protocol types x 4 labels x PDU lengths {0,1,7} x every buffer size 0..=complete size+3 (forcing fragmentation at every offset in and after the extension area) goes through the real encap_ext; every Ok is decoded by the reference parser, delivered by a real receiver knowing the ids used (completing fragmented PDUs with encap_frag, storage = PDU length and +8), and must be dropped with exactly its own length consumed by receivers missing any used mandatory id, also when bytes follow.",
         "trusted: finality of a mandatory id is defined per call as 'last extension and protocol type == id' (the sender interface's own notion); chains using one id both ways are skipped"),
 "C02": ("explicit-state exploration to closure of sender-progress x real-receiver graphs, one per case",
         "For every case (PDU length 0..=40, thorough 0..=96; label kind incl. a first fragment replaced by re-use; fragment id; storage exactly sufficient and larger) the graph whose ops are 'offer an output buffer of size b' for the complete buffer alphabet 0..=p+24 and beyond 4097 is explored to closure, so every finite buffer schedule is covered; PDUs that must be fragmented (4094..9000, thorough up to the 16-bit limit) are explored by position with the receiver snapshot checked equal to the one the position determines. Every packet goes through the real decap; delivery, metadata, consumed lengths and a strictly decreasing liveness rank for buffers >= 13 are checked.",
         "trusted: 4 content patterns, 3 protocol types; large regime keyed by position (sound because the receiver snapshot is asserted to be a function of the position on every transition)"),
 "C03": ("exhaustive fault enumeration over real fragment trains + explicit-state BFS to closure over spliced hand-built trains, exact reference oracle on the received bytes",
         "Every single fault of the menu (drop/dup/swap, every bit flip incl. header bits, every burst pattern up to 10 (14 thorough) bits at every offset, truncation at every byte, every frag-id value, total-length and CRC replacements) and all ordered pairs of drop/dup/swap/bit-flip faults are applied to trains produced by the real encapsulator; all sequences over 16 hand-built valid fragments of two PDUs spliced on one id (and other/aliasing ids) are explored to closure (13k states). A reference receiver with a bit-serial CRC decides on the received bytes whether a delivery was allowed and what must have been delivered.",
         "trusted: refm parser/CRC; bursts of 15..32 bits only by 4 patterns per offset (2^30 per offset unreachable) — argued from C12 + degree-32 generator"),
 "C07": ("explicit-state BFS to closure over (index per train, real receiver snapshot) with strays",
         "All order-preserving merges of 2..3 (thorough 4) fragment trains of 2..5 fragments on separately tracked ids, with restarts and with stray intermediate/end packets of aliasing ids (id+n, id+2n), empty-slot ids, duplicate ends, complete packets, padding and (one configuration) a foreign first fragment claiming an aliasing slot inserted at every position any number of times, are covered by closing the state graph; isolation of every other train's reassembly data is checked on every transition and delivery exactly at the own end fragment with own bytes/metadata.",
         "trusted: trains built by the reference printer; memory sizes n in {k, k+1}"),
 "C05": ("exhaustive enumeration of (reachable receiver state) x (input buffer) on the real decap and peek under catch_unwind",
         "About 2000 receiver snapshots (everything reachable within 3 ops from 24 storage configurations: absent / one buffer / full free list, storage sizes 0/1/4/64, 1 and 2 slots, open contexts on same / aliasing / other ids, any remembered label) are combined with all byte strings of length 0..=3, all fixed headers of 912 (thorough: all 65536) values x 27 buffer lengths x 17 adversarial tails, and every truncation / byte replacement of a 62-packet corpus from the real encapsulator; no panic, consumed <= len, consumed >= min(2,len).",
         "trusted: catch_unwind + panic hook; the statement's random inputs are replaced by structured complete enumerations"),
 "C08": ("explicit-state BFS to closure of the real receiver with a conservation invariant + deviation-bounded memory-fault injection behind the public trait",
         "The closed system real-receiver x caller (provision each owned buffer, new_pdu, reset, decap of each of 40 packets covering every valid kind and every rejection reason) is explored to closure for 1 slot (12k states) and to depth 5 / closure in thorough (586k states, depth 23) for 2 slots; the multiset of buffers (free + contexts + caller incl. results and error payloads) must be invariant on every transition. In every explored state x packet each memory call is additionally failed in turn (1, thorough 2 deviations) through a wrapper implementing GseDecapMemory.",
         "trusted: buffer identity by pairwise distinct lengths; normalisation of unobservable buffer contents; hook restore fidelity (asserted)"),
 "C16": ("explicit-state BFS of the real receiver + exhaustive recovery probes in every reachable state",
         "Every state of the C08 receiver closure (1 slot: closure; 2 slots: depth 5, thorough closure) is restored and probed: reset_last_label, provision one buffer (Ok or overflow), then a valid complete packet with each label kind and a valid 3-fragment PDU on every fragment id of {0,1,aliasing,255} with each label kind must be delivered with the right bytes and metadata.",
         "trusted: histories drawn from the 40-packet alphabet; probes built by the reference printer"),
 "C15": ("explicit-state BFS to closure over the real Encapsulator with a wire monitor",
         "The reachable state space of the real Encapsulator (cloned per transition) under send x {6 labels} x {complete, first fragment, encap_ext complete/first fragment, 4 failing calls}, zero label, reset, disable, enable, enable-with-max(N) is explored to closure (no depth bound; the counter climbs through all 256 values under N=255); a monitor of what the wire carried judges every emitted start/complete packet (disabled => no substitution, at most N consecutive, full label after reset/broadcast, substitution only for the immediately preceding label).",
         "trusted: the monitor (40 lines) and its rule that the consecutive count restarts when the configuration changes; label alphabet of 6 letters"),
 "C17": ("explicit-state BFS (depth-bounded, state merging) with per-transition refinement check against a bag-and-slots reference",
         "Every sequence of provision / new_pdu / new_frag / take_frag / save_frag up to depth 7 (8 thorough) over aliasing and non-aliasing ids, for 1..2 (1..4 thorough) slots and buffers below/at/above the configured size, is executed on the real SimpleGseMemory (restored through the capacity-preserving hook); each return value and successor state is compared with the reference model.",
         "trusted: the hook's restore fidelity (asserted), the reference transition rules in c17.rs"),
 "C01": ("exhaustive lattice enumeration: real encap then real decap of exactly the reported bytes",
         "Every PDU length 0..=4100 x label kind x re-use row (enabled/disabled, directly after the same label) x buffer lengths around the exact packet size and beyond 4097 x storage sizes >= PDU is executed through the real sender and a real receiver kept in lock-step; all payload contents of length 0..=1 (0..=2 thorough) and all protocol types >= 0x0600 (thorough) are swept; the completed-iff-fits rule is evaluated in every cell.",
         "trusted: the arithmetic statement of 'fits' (2+label+PDU <= 4095 and packet <= buffer); contents beyond 2 bytes represented by 4 patterns"),
 "C12": ("exhaustive enumeration against a bit-serial reference CRC + recording CrcCalculator injected into real sender and receiver",
         "The real DefaultCrc is compared with a table-free bit-serial CRC-32/MPEG-2 on all PDUs <= 2 bytes, every byte value at every position of messages up to 96 (4200 thorough) bytes over two backgrounds, all total lengths and protocol types (thorough: the complete 2^32 square); the wiring is checked by enumerating every fragmented transfer of a small regime with a recording calculator on both sides (arguments, big-endian trailer, receiver recomputation, delivery).",
         "trusted: refm::crc_update (8 lines); linearity of CRC for inputs beyond the sweep is external mathematics"),
 "C18": ("exhaustive differential enumeration of preview vs real call",
         "encap_preview vs encap and encap_frag_preview vs encap_frag are executed side by side on every cell of the size/label/protocol-type/context lattices (all 65536 protocol types in thorough) and must agree on error variant or on kind, packet length and payload length.",
         "trusted: nothing beyond the harness; substitution rows excluded as the statement says"),
 "C06": ("exhaustive lattice enumeration of the real encap/encap_frag/encap_ext against an independent wire parser",
         "Every cell of complete product lattices (PDU length x buffer length x label x prior encapsulator state x protocol type x fragment id; PDU length x context position x buffer length; extension chains x sizes) is executed on the real code and every emitted packet is parsed by a reference parser written from the standard; all small sizes and complete windows around 4095/4097/65535 are covered, so the size-dependent decisions are closed rather than sampled.",
         "trusted: the reference parser/CRC stand-in in /verif/harness/src/refm.rs; sizes between the windows are represented by the windows (piecewise-linear size decisions)"),
 "C09": ("exhaustive lattice enumeration with pre-call clone comparison and differential continuation",
         "Every cell of the sender lattices (incl. zero label, explicit re-use, all protocol-type range boundaries, extension lists of 0..3(4) entries, contexts beyond the PDU, buffers > 4097 with PDUs > 4095) runs the real call under catch_unwind; on Err the buffer pre-image, the encapsulator (== pre-call clone) and the next packets from both objects are compared.",
         "trusted: derived PartialEq of Encapsulator plus the differential continuation; windows represent the sizes between them"),
 "C11": ("exhaustive enumeration of the fragmentation transition relation + longest-path DP on the observed graph",
         "encap_frag is a pure function of (PDU, context, buffer length): for every PDU length 0..=64 (128 thorough) the complete transition relation over all positions and buffer lengths is executed and checked (slice equality, advance == bytes written, id/CRC preserved, no empty fragment, mandatory acceptance of >= 7-byte buffers); thorough closes buffer length 0..=70000 and position 0..=p for p in {4096, 5000, 65535}.",
         "trusted: reference parser; PDU lengths restricted to <= 65535"),
 "C14": ("complete enumeration of the finite input space",
         "All 65536 header words and all 4x4x4096 triples are executed on the real codec and compared with an independent bit-level decoding.",
         "trusted: refm::header_fields / header_word (10 lines from the standard's bit layout)"),
}

hooks_commit = subprocess.run(['git','-C','/repo','log','--format=%h','--grep=^verif hooks'],capture_output=True,text=True).stdout.split()

m = {
 "version": 1,
 "setup_cmd": "cd /verif/harness && CARGO_NET_OFFLINE=true cargo build --profile mc --offline",
 "hooks": {
   "guard": "cfg(dvb_gse_verif)",
   "enable": "RUSTFLAGS --cfg dvb_gse_verif is set in /verif/harness/.cargo/config.toml; /repo is a path dependency of the harness, so every check rebuilds /repo's working tree with the hooks on",
   "baseline_off_cmd": "cd /repo && cargo test --workspace --no-fail-fast --offline",
   "source_commits": hooks_commit,
   "add_only": True,
 },
 "engines": [{"name": "gsemc", "path": "/verif/harness", "serves_properties": sorted(CHECKS), "kind_free_text": "own explicit-state BFS explorer (closure / depth-bounded, full-state keys, parent pointers) and complete-lattice enumerator, both driving the real crate (Rust, rayon, 16 threads)"}],
 "checks": [],
 "not_applicable": [],
 "notes": "Every check: ./check <ID> quick|thorough ; exit 0 held / 1 unlisted violation (VIOLATION line) / 2 machinery error. Known findings: /verif/known_findings.json.",
}
for p in props:
    i = p['id']
    if i in CHECKS:
        t, text, note = CHECKS[i]
        m['checks'].append({
            "property_id": i, "quick_cmd": f"./check {i} quick", "thorough_cmd": f"./check {i} thorough",
            "evidence_file": f"/verif/evidence/{i}.json", "replay_cmd_template": "./check replay {path}",
            "engine": "gsemc",
            "level_claimed": {"category": "model_checking", "text": text, "design_ref": f"DESIGN.md §5 {i}"},
            "level_note": note, "technique": t})
    else:
        m['not_applicable'].append({"property_id": i, "reason": "check not built yet (work in progress); design in DESIGN.md §5"})
json.dump(m, open('/verif/MANIFEST.json', 'w'), indent=1)
print("checks:", len(m['checks']), "not_applicable:", len(m['not_applicable']))
