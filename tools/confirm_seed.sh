#!/bin/bash
# tools/confirm_seed.sh <worktree dir with patch.diff + tests/demo_seeded.rs>
# Confirms in that scratch worktree: with the change the baseline suite passes and the demo fails;
# without the change the demo passes. Prints a one-line JSON summary.
D="$1"; cd "$D" || exit 2
export CARGO_NET_OFFLINE=true
git checkout -q -- src 2>/dev/null
git apply --check patch.diff || { echo '{"ok":false,"why":"patch does not apply on the worktree HEAD"}'; exit 1; }
# unchanged code: demo passes
out0=$(cargo test --offline --test demo_seeded 2>&1); rc0=$?
git apply patch.diff
out1=$(cargo test --offline --no-fail-fast 2>&1); 
lib=$(echo "$out1" | grep -E "^test result" | sed -n 1p)
e2e_demo=$(echo "$out1" | grep -E "^test result")
demo_fail=$(echo "$out1" | grep -A3 "Running tests/demo_seeded.rs" | grep -c "FAILED\|failed")
n251=$(echo "$out1" | grep -c "test result: ok. 251 passed")
n25=$(echo "$out1" | grep -c "test result: ok. 25 passed")
n9=$(echo "$out1" | grep -c "test result: ok. 9 passed")
demo_res=$(echo "$out1" | grep -E "^test result: FAILED" | head -1)
echo "{\"dir\":\"$D\",\"demo_passes_unchanged\":$([ $rc0 -eq 0 ] && echo true || echo false),\"baseline_251\":$n251,\"baseline_25\":$n25,\"doctests_9\":$n9,\"demo_with_change\":\"$demo_res\"}"
