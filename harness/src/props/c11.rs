//! C11 — fragmentation always progresses and partitions the PDU exactly.
//! encap_frag takes &self and reads no encapsulator field: the set of all its calls over
//! (PDU, context, buffer length) IS the transition relation of the fragmentation graph. Every
//! transition is checked, plus a longest-path computation on the observed graph.

use crate::common::*;
use crate::props::c06::positions;
use crate::report::{Acc, Report, Tier};
use crate::rx::FastCrc;
use crate::sender::*;
use crate::tx::*;
use rayon::prelude::*;
use serde_json::json;

const C11_CLAUSES: [&str; 12] = ["rejects>=7", "accepts-useless-buffer", "empty-fragment", "ctx-advance", "ctx-id-crc", "ctx-beyond-pdu", "payload", "crc-trailer", "frag-id", "kind-bits", "len>buffer", "gse-len>4095"];

fn check_cell(rep: &Report, acc: &mut Acc, enc: &dvb_gse_rust::gse_encap::Encapsulator<FastCrc>, pd: &[u8], pos: usize, b: usize, fid: u8, buf: &mut [u8], sent: u8) -> EncOut {
    let p = pd.len();
    let ctx = Ctx { id: fid, crc: 0x5EED_0000 ^ ((p as u32) << 4) ^ pos as u32, pos: pos as u16 };
    let out = do_encap_frag(enc, pd, ctx, buf);
    acc.states += 1;
    acc.transitions += 1;
    acc.calls += 1;
    acc.compared += 1;
    let rem = p.saturating_sub(pos);
    acc.outcome(&format!("encap_frag:{}:{}:rem{}:{}", out.class(), regime(p, b), if pos > p { "<0" } else if rem == 0 { "=0" } else { ">0" }, if b < 4 { "b<4" } else if b < 7 { "b4-6" } else { "b>=7" }));
    for (cl, txt) in wf_frag(&FragIn { pdu: pd, ctx, b }, &out, buf, sent) {
        if !C11_CLAUSES.contains(&cl.as_str()) {
            continue;
        }
        let sig = format!("C11|encap_frag|{}|{}|rem{}", cl, regime(rem, b), if pos > p { "<0" } else if rem == 0 { "=0" } else { ">0" });
        rep.violation(&sig, (p * 100_000 + b) as u64, || {
            (format!("encap_frag(pdu_len={}, context=(id {}, pos {}), buffer={}) returned {:?}: {}", p, fid, pos, b, out, txt),
             json!({"call":"encap_frag","pdu_len":p,"pdu_pattern":0,"frag_id":fid,"ctx_pos":pos,"ctx_crc":ctx.crc,"buffer_len":b,"result":format!("{:?}",out)}))
        });
    }
    if let EncOut::Panic(pn) = &out {
        // "a buffer that cannot carry anything useful is rejected" / "each successful continuation call ...": a call within
        // the PDU (context not beyond it) that panics does neither
        if pos <= p {
            let sig = format!("C11|encap_frag|panic|{}|{}", Panicked(pn.clone()).coarse(), if b < 7 { "b<7" } else { "b>=7" });
            rep.violation(&sig, (p * 100_000 + b) as u64, || {
                (format!("encap_frag(pdu_len={}, context=(id {}, pos {}), buffer={}) panics at {}: the buffer is neither used nor rejected", p, fid, pos, b, pn),
                 json!({"call":"encap_frag","pdu_len":p,"pdu_pattern":0,"frag_id":fid,"ctx_pos":pos,"ctx_crc":ctx.crc,"buffer_len":b,"result":format!("{:?}",out)}))
            });
        }
    }
    let dirty = if matches!(out, EncOut::Panic(_)) { b } else { out.len().unwrap_or(0).min(b).max(b.min(16)) };
    for x in buf[..dirty].iter_mut() {
        *x = sent;
    }
    if buf.iter().any(|&x| x != sent) {
        for x in buf.iter_mut() {
            *x = sent;
        }
    }
    out
}

pub fn run(tier: Tier) -> i32 {
    let rep = Report::new("C11", tier);
    rep.set_rule("the complete transition relation of the fragmentation graph for every PDU length 0..=64 (every context position, every buffer length 0..=p+16 and beyond 4097), the window lattice for large PDUs, first fragments over the size lattice (encap, and encap_ext with all chains of <= 2 extensions); per-transition partition/progress clauses plus longest-path dynamic programming on the observed graph; distinct = (status, size regime, remaining regime, buffer class)");
    rep.assume("PDU lengths restricted to 0..=65535 (a context cannot legitimately exist for a longer PDU: encap refuses it)");
    rep.assume("sizes between the enumerated windows are represented by the windows");
    small(&rep, tier);
    large(&rep, tier);
    firsts(&rep, tier);
    if tier.thorough() {
        crosses(&rep);
    }
    rep.finish(true)
}

fn small(rep: &Report, tier: Tier) {
    let maxp = if tier.thorough() { 128 } else { 64 };
    let ps: Vec<usize> = (0..=maxp).collect();
    ps.par_iter().for_each(|&p| {
        let mut acc = Acc::default();
        let pd = pdu(p, 0);
        let enc = fast_enc();
        let mut bl: Vec<usize> = (0..=p + 16).collect();
        bl.extend([4097, 4098, 4099, 70000]);
        let mut bufs = [vec![SENTINELS[0]; 70000], vec![SENTINELS[1]; 70000]];
        // observed graph: next[pos][bi] = None (err) | Some(None) done | Some(Some(pos'))
        let mut graph: Vec<Vec<Option<Option<usize>>>> = vec![vec![None; bl.len()]; p + 1];
        let mut poss: Vec<usize> = (0..=p).collect();
        poss.extend([p + 1, p + 2, 65535]);
        for pos in poss {
            for (bi, &b) in bl.iter().enumerate() {
                let fids: Vec<u8> = if p <= 8 && b <= 16 { (0..=255).collect() } else { vec![((p * 31 + pos * 7 + b) % 256) as u8] };
                for fid in fids {
                    let si = (p + b + pos) % 2;
                    let out = check_cell(rep, &mut acc, &enc, &pd, pos, b, fid, &mut bufs[si][..b], SENTINELS[si]);
                    if pos <= p {
                        graph[pos][bi] = match out {
                            EncOut::Completed(_) => Some(None),
                            EncOut::Fragmented(_, c) => Some(Some(c.pos as usize)),
                            _ => None,
                        };
                    }
                }
            }
        }
        // graph level: with buffers >= 7 every path from pos finishes within rem+1 calls
        let mut longest = vec![0usize; p + 2];
        for pos in (0..=p).rev() {
            let mut l = 0usize;
            for (bi, &b) in bl.iter().enumerate() {
                if b < 7 {
                    continue;
                }
                match graph[pos][bi] {
                    Some(None) => l = l.max(1),
                    Some(Some(np)) => {
                        if np <= pos || np > p {
                            rep.violation("C11|graph|no-progress", (p * 1000 + pos) as u64, || {
                                (format!("pdu_len={} position {} buffer {}: successful continuation call leads to position {} (no forward progress)", p, pos, b, np), json!({"pdu_len":p,"pos":pos,"buffer_len":b,"next_pos":np}))
                            });
                        } else {
                            l = l.max(1 + longest[np]);
                        }
                    }
                    None => {}
                }
            }
            longest[pos] = l;
            acc.compared += 1;
            if l > (p - pos) + 1 {
                rep.violation("C11|graph|too-many-calls", (p * 1000 + pos) as u64, || {
                    (format!("pdu_len={} position {}: a schedule of buffers >= 7 needs {} calls, more than remaining+1 = {}", p, pos, l, p - pos + 1), json!({"pdu_len":p,"pos":pos,"longest":l}))
                });
            }
        }
        rep.sample(p as u64, || json!({"pdu_len":p,"positions":p+1,"buffer_lengths":bl.len(),"longest_path_from_0_with_buffers>=7":longest[0]}));
        rep.merge(acc);
    });
    rep.part(json!({"part":"small regime: complete transition relation","pdu_lengths":format!("0..={}",maxp),"positions":"0..=p, p+1, p+2, 65535","buffers":"0..=p+16, 4097, 4098, 4099, 70000"}));
}

fn large(rep: &Report, _tier: Tier) {
    let ps: Vec<usize> = p_set().into_iter().filter(|&p| p > 64 && p <= 65535).collect();
    let bs = b_set();
    ps.par_iter().for_each(|&p| {
        if rep.over_time() {
            rep.cap("large: wall cap");
            return;
        }
        let mut acc = Acc::default();
        let pd = pdu(p, 0);
        let enc = fast_enc();
        let mut bufs = [vec![SENTINELS[0]; 70000], vec![SENTINELS[1]; 70000]];
        for pos in positions(p) {
            let rem = p.saturating_sub(pos);
            let mut bl = bs.clone();
            for d in 0..=4usize {
                bl.push((2 + 1 + rem + 4 + d).saturating_sub(2));
                bl.push((3 + rem + d).saturating_sub(2));
            }
            for b in uniq(bl.into_iter().filter(|&b| b <= 70000).collect()) {
                let si = (p + b + pos) % 2;
                let fid = [0u8, 0xA7, 255][(p + b + pos) % 3];
                check_cell(rep, &mut acc, &enc, &pd, pos, b, fid, &mut bufs[si][..b], SENTINELS[si]);
            }
        }
        rep.merge(acc);
    });
    rep.part(json!({"part":"large regime","pdu_lengths":ps.len(),"positions":"0,1,p-1,p,p+1,65535,p-4097..=p-4086,p-8..=p","buffers":"B + relative"}));
}

fn firsts(rep: &Report, _tier: Tier) {
    let ps: Vec<usize> = p_set();
    let bs = b_set();
    let cells: Vec<(usize, Lbl)> = ps.iter().flat_map(|&p| [L6A, L3A, Lbl::Bcast, Lbl::ReUse].into_iter().map(move |l| (p, l))).collect();
    cells.par_iter().for_each(|&(p, l)| {
        if rep.over_time() {
            rep.cap("firsts: wall cap");
            return;
        }
        let mut acc = Acc::default();
        let pd = pdu(p, 0);
        let mut bl = bs.clone();
        bl.extend(b_relative(p, l.wire_len(), 0));
        for prior in [Prior::Fresh, Prior::Same, Prior::SameAtMax, Prior::SameBelowMax, Prior::Other, Prior::OtherThenRefused] {
            if !matches!(prior, Prior::Fresh | Prior::Other | Prior::OtherThenRefused) && !l.is_addr() {
                continue;
            }
            let base = build_prior(FastCrc, prior, l);
            for &b in &uniq(bl.clone()) {
                let sent = SENTINELS[(p + b) % 2];
                let mut buf = vec![sent; b];
                let mut enc = base.clone();
                let out = do_encap(&mut enc, &pd, 0xA7, 0x0800, l, &mut buf);
                acc.states += 1;
                acc.transitions += 1;
                acc.calls += 1;
                acc.outcome(&format!("encap:{}:{}", out.class(), regime(p, b)));
                if let EncOut::Fragmented(..) = out {
                    acc.compared += 1;
                    let i = FirstIn { pdu: &pd, frag_id: 0xA7, pt: 0x0800, label: l, b, may_substitute: prior.may_substitute(l), exts: &[], mand: None };
                    let (fails, _) = wf_first(&i, &out, &buf, sent, &FastCrc);
                    for (cl, txt) in fails {
                        if !matches!(cl.as_str(), "ctx-count" | "payload" | "frag-id" | "ctx-crc") {
                            continue;
                        }
                        let sig = format!("C11|encap|{}|{}", cl, regime(p, b));
                        rep.violation(&sig, (p * 100_000 + b) as u64, || {
                            (format!("encap(pdu_len={}, label={}, buffer={}) returned {:?}: {}", p, l.short(), b, out, txt), json!({"call":"encap","pdu_len":p,"pdu_pattern":0,"frag_id":0xA7,"pt":0x0800,"label":l.short(),"buffer_len":b,"prior":format!("{:?}",prior),"result":format!("{:?}",out)}))
                        });
                    }
                }
            }
        }
        rep.merge(acc);
    });
    rep.part(json!({"part":"first fragments","pdu_lengths":ps.len(),"labels":4}));
    // first fragments with header extensions (encap_ext): the context must count exactly the payload carried
    let ch = crate::props::c06::chains(2);
    ch.par_iter().for_each(|c| {
        if rep.over_time() {
            rep.cap("ext firsts: wall cap");
            return;
        }
        let mut acc = Acc::default();
        let pt = crate::props::c06::pt_for_chain(c);
        let ext_wire: usize = c.iter().map(|e| 2 + e.1.len()).sum::<usize>() - if crate::props::c06::is_final_mand(c.last().unwrap().0) { 2 } else { 0 };
        for &p in &[0usize, 1, 7, 40, 4070, 4090, 4096, 5000, 9000] {
            let pd = pdu(p, 0);
            for l in [L6A, Lbl::Bcast] {
                let hdr = 7 + l.wire_len() + ext_wire;
                let mut bl: Vec<usize> = vec![hdr.saturating_sub(1), hdr, hdr + 1, hdr + 2, hdr + 7, 4096, 4097, 4098, 4099, 4110, 5000, 8192, 65536, 70000];
                bl.extend((4 + l.wire_len() + ext_wire + p).saturating_sub(2)..=4 + l.wire_len() + ext_wire + p + 1);
                for (b, prior) in uniq(bl).into_iter().flat_map(|b| [(b, Prior::Fresh), (b, Prior::SameAtMax), (b, Prior::Same)]) {
                    if prior != Prior::Fresh && !l.is_addr() {
                        continue;
                    }
                    let sent = SENTINELS[(p + b) % 2];
                    let mut buf = vec![sent; b];
                    let mut enc = build_prior(FastCrc, prior, l);
                    let out = do_encap_ext(&mut enc, &pd, 0xA7, pt, l, &mut buf, c);
                    acc.states += 1;
                    acc.transitions += 1;
                    acc.calls += 1;
                    acc.outcome(&format!("encap_ext:{}:{}", out.class(), regime(p, b)));
                    if let EncOut::Fragmented(..) = out {
                        acc.compared += 1;
                        let i = FirstIn { pdu: &pd, frag_id: 0xA7, pt, label: l, b, may_substitute: prior.may_substitute(l), exts: c, mand: None };
                        let (fails, _) = wf_first(&i, &out, &buf, sent, &FastCrc);
                        for (cl, txt) in fails {
                            if !matches!(cl.as_str(), "ctx-count" | "payload" | "frag-id" | "ctx-crc" | "gse-len!=written-2" | "gse-len>4095" | "unparsable") {
                                continue;
                            }
                            let sig = format!("C11|encap_ext|{}|{}", cl, regime(p, b));
                            rep.violation(&sig, (p * 100_000 + b) as u64, || {
                                (format!("encap_ext(pdu_len={}, label={}, buffer={}, extensions={:?}) returned {:?}: {}", p, l.short(), b, c.iter().map(|e| e.0).collect::<Vec<_>>(), out, txt), json!({"call":"encap_ext","pdu_len":p,"pdu_pattern":0,"frag_id":0xA7,"pt":pt,"label":l.short(),"buffer_len":b,"prior":format!("{:?}",prior),"extensions":c.iter().map(|e| json!([e.0, hex(&e.1)])).collect::<Vec<_>>(),"result":format!("{:?}",out)}))
                            });
                        }
                    }
                }
            }
        }
        rep.merge(acc);
    });
    rep.part(json!({"part":"first fragments with extensions (encap_ext)","chains":ch.len()}));
}

/// thorough: one dimension closed completely at a time
fn crosses(rep: &Report) {
    let bs = b_set();
    for &p in &[4096usize, 5000, 65535] {
        let pd = pdu(p, 0);
        // every buffer length 0..=70000 at the critical positions
        let poss = positions(p);
        let bl: Vec<usize> = (0..=70000).collect();
        bl.par_chunks(512).for_each(|chunk| {
            if rep.over_time() {
                rep.cap("crosses(b): wall cap");
                return;
            }
            let mut acc = Acc::default();
            let enc = fast_enc();
            let mut bufs = [vec![SENTINELS[0]; 70000], vec![SENTINELS[1]; 70000]];
            for &b in chunk {
                for &pos in &poss {
                    let si = (b + pos) % 2;
                    check_cell(rep, &mut acc, &enc, &pd, pos, b, 0xA7, &mut bufs[si][..b], SENTINELS[si]);
                }
            }
            rep.merge(acc);
        });
        // every position 0..=p at the listed buffer lengths
        let pl: Vec<usize> = (0..=p).collect();
        pl.par_chunks(256).for_each(|chunk| {
            if rep.over_time() {
                rep.cap("crosses(pos): wall cap");
                return;
            }
            let mut acc = Acc::default();
            let enc = fast_enc();
            let mut bufs = [vec![SENTINELS[0]; 70000], vec![SENTINELS[1]; 70000]];
            for &pos in chunk {
                for &b in &bs {
                    let si = (b + pos) % 2;
                    check_cell(rep, &mut acc, &enc, &pd, pos, b, 0x11, &mut bufs[si][..b], SENTINELS[si]);
                }
            }
            rep.merge(acc);
        });
        rep.part(json!({"part":"cross","pdu_len":p,"buffers":"0..=70000 x critical positions","positions":"0..=p x B"}));
    }
}
