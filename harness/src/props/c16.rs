//! C16 — the receiver recovers after any history: in every reachable receiver state, after a
//! label-memory reset and one provisioned buffer, a valid complete packet and a valid
//! fragmented PDU on any fragment id are delivered correctly.

use crate::common::*;
use crate::explore::*;
use crate::refm::Desc;
use crate::report::{Acc, Report, Tier};
use crate::rx::*;
use crate::rxalpha::*;
use crate::rxmodel;
use dvb_gse_rust::crc::DefaultCrc;
use rayon::prelude::*;
use serde_json::json;

const PDU_Z: [u8; 4] = [0xC1, 0xC2, 0xC3, 0xC4];

fn expect_completed(out: &DecapOut, pdu: &[u8], pt: u16, l: Lbl, n: usize) -> Option<String> {
    match out {
        DecapOut::Completed { buf, meta, consumed } => {
            if *consumed != n {
                return Some(format!("consumed {} instead of {}", consumed, n));
            }
            if meta.pdu_len != pdu.len() || buf.len() < pdu.len() || &buf[..pdu.len()] != pdu {
                return Some(format!("delivered PDU differs: {}", out.brief()));
            }
            if meta.pt != pt || meta.label != l || !meta.exts.is_empty() {
                return Some(format!("delivered metadata differ: {}", out.brief()));
            }
            None
        }
        other => Some(format!("not delivered: {}", other.brief())),
    }
}

pub fn run(tier: Tier) -> i32 {
    let rep = Report::new("C16", tier);
    rep.set_rule("receiver states: closure of the 1-slot receiver system, the 2-slot system to depth 9 (thorough: closure) and a 3-slot system (a table size that is not a power of two) to depth 4 (thorough 6) over provision / new_pdu / reset / decap(46-packet alphabet incl. every rejection reason, malformed and truncated buffers, unfinished trains); in EVERY state the recovery probe runs on restored copies: reset_last_label, provision one buffer of the configured PDU size (Ok or StorageOverflow accepted), then (i) a valid complete packet with a 6-byte resp. 3-byte label, (ii) a valid 3-fragment PDU on each fragment id in {0, 1, slots (aliasing), 255} with both label kinds, plus three 'twins' of the trains the alphabet leaves unfinished (same fragment id, label, protocol type and total length, other PDU bytes); directed: after three short histories the storage made available has 65535..131075 bytes, same train probe on four fragment ids; distinct = probe outcome classes");
    rep.assume("histories are drawn from the 46-packet alphabet (structured, not random bytes); C05 covers arbitrary bytes for totality");
    let mgr = mgr_std();
    for slots in [1usize, 2, 3] {
        let buffers: Vec<usize> = (0..slots + 3).map(|i| 4 + i).collect();
        let sys = rxmodel::Sys::new(slots, 4, buffers, false);
        let quiet = Report::new("C16-states", tier);
        let (max_states, max_depth) = if slots == 3 { (700_000, if tier.thorough() { 6 } else { 4 }) } else if tier.thorough() { (4_000_000, 64) } else if slots == 1 { (400_000, 64) } else { (700_000, 9) };
        let ex = explore(&sys, &Limits { max_states, max_depth }, &quiet, &format!("receiver-{}-slots", slots));
        rep.part(json!({"model": format!("receiver-{}-slots", slots), "states": ex.states.len(), "transitions": ex.transitions, "max_depth": ex.depth, "closure_reached": ex.closed}));
        if !ex.closed {
            rep.bound(&format!("receiver-{}-slots: depth bound {} (all histories up to that depth covered)", slots, ex.depth));
        }
        rep.depth(ex.depth as u64);
        let idx: Vec<usize> = (0..ex.states.len()).collect();
        idx.par_chunks(64).for_each(|chunk| {
            if rep.over_time() {
                rep.cap("probes: wall cap");
                return;
            }
            let mut acc = Acc::default();
            for &i in chunk {
                let st = &ex.states[i];
                acc.states += 1;
                let hist = || ex.path(i).iter().map(|o| sys.op_json(o)).collect::<Vec<_>>();
                // common prefix of the probe
                let prep = |acc: &mut Acc| -> Option<dvb_gse_rust::gse_decap::Decapsulator<dvb_gse_rust::gse_decap::SimpleGseMemory, DefaultCrc, TableMgr>> {
                    let mut d = st.rx.build(DefaultCrc {}, mgr.clone());
                    d.reset_last_label();
                    acc.transitions += 1;
                    // a caller provisions storages of the configured PDU size (4 here): that is what must still be accepted
                    match catch(|| d.provision_storage(vec![0u8; 4].into_boxed_slice())) {
                        Err(p) => {
                            rep.violation(&format!("C16|provision-panic|{}", p.coarse()), ex.depth_of(i) as u64, || (format!("provision_storage panics at {}", p.0), json!({"history": hist()})));
                            None
                        }
                        Ok(Ok(())) => {
                            acc.sout("provision:Ok", 0);
                            Some(d)
                        }
                        Ok(Err(e)) => {
                            let (k, _) = mem_err_kind(&e);
                            if k == "StorageOverflow" {
                                acc.sout("provision:full", 0);
                                Some(d)
                            } else {
                                rep.violation(&format!("C16|provision-refused|{}", k), ex.depth_of(i) as u64, || (format!("provisioning a buffer of the configured PDU size (4 bytes) is refused with {}", k), json!({"history": hist(), "state": format!("{:?}", st.rx)})));
                                None
                            }
                        }
                    }
                };
                // (i) complete packets
                for l in [L6B, L3B] {
                    let Some(mut d) = prep(&mut acc) else { continue };
                    let pkt = Desc::complete(l, 0x86DD, &PDU_Z).print();
                    let out = do_decap(&mut d, &pkt);
                    acc.transitions += 1;
                    acc.calls += 1;
                    acc.compared += 1;
                    acc.outcome(&format!("complete-probe:{}", out.class()));
                    if let Some(why) = expect_completed(&out, &PDU_Z, 0x86DD, l, pkt.len()) {
                        let cls = out.class();
                        rep.violation(&format!("C16|complete-probe|{}", cls), ex.depth_of(i) as u64, || (format!("after the history, reset + provision, a valid complete packet with label {} is not delivered correctly: {}", l.short(), why), json!({"model": format!("receiver-{}-slots", slots), "slots": slots, "history": hist(), "state": format!("{:?}", st.rx), "probe": hex(&pkt)})));
                    }
                }
                // (ii) fragmented PDUs
                let mut train_probes: Vec<(u8, Lbl, u16)> = [0u8, 1, slots as u8, 255].into_iter().flat_map(|f| [(f, L6B, 0x0800u16), (f, L3B, 0x0800)]).collect();
                // twins of the unfinished trains of the history: same fragment id, label, protocol type and total
                // length as a train the alphabet leaves open, but another PDU
                train_probes.extend([(0u8, L6A, 0x0800u16), (1, L3A, 0x86DD), (slots as u8, Lbl::Bcast, 0x0800)]);
                for (f, l, ppt) in train_probes {
                    {
                        let Some(mut d) = prep(&mut acc) else { continue };
                        let (p1, p2, p3, _) = train(l, f, &PDU_Z, ppt);
                        let o1 = do_decap(&mut d, &p1);
                        let o2 = do_decap(&mut d, &p2);
                        let o3 = do_decap(&mut d, &p3);
                        acc.transitions += 3;
                        acc.calls += 3;
                        acc.compared += 1;
                        let ok12 = matches!(&o1, DecapOut::Fragmented { meta, consumed } if meta.label == l && meta.pt == ppt && *consumed == p1.len()) && matches!(&o2, DecapOut::Fragmented { meta, consumed } if meta.label == l && meta.pt == ppt && *consumed == p2.len());
                        let why = if !ok12 { Some(format!("fragments not accepted: {} / {}", o1.brief(), o2.brief())) } else { expect_completed(&o3, &PDU_Z, ppt, l, p3.len()) };
                        acc.outcome(&format!("train-probe:{}/{}/{}", o1.class(), o2.class(), o3.class()));
                        if let Some(why) = why {
                            let cls = format!("{}/{}/{}", o1.class(), o2.class(), o3.class());
                            let alias = if f as usize == slots { "aliasing-id" } else { "plain-id" };
                            rep.violation(&format!("C16|train-probe|{}|{}", cls, alias), ex.depth_of(i) as u64, || (format!("after the history, reset + provision, a valid 3-fragment PDU on frag id {} with label {} is not reassembled correctly: {}", f, l.short(), why), json!({"model": format!("receiver-{}-slots", slots), "slots": slots, "history": hist(), "state": format!("{:?}", st.rx), "probe": [hex(&p1), hex(&p2), hex(&p3)]})));
                        }
                    }
                }
                if rep.sample_wanted(i as u64 * 31 + slots as u64) {
                    rep.sample(i as u64, || json!({"model": format!("receiver-{}-slots", slots), "slots": slots, "history": hist(), "probes": "2 complete + 11 trains, all delivered"}));
                }
            }
            rep.merge(acc);
        });
    }
    // directed: storages around 64 KiB (lengths that do not fit 16 bits). A receiver whose pool holds such a storage, alone
    // or on top of a full free list after a short history, must still reassemble a valid fragmented PDU and a complete one.
    {
        let mut acc = Acc::default();
        let pdu_z: [u8; 4] = PDU_Z;
        for big in [65535usize, 65536, 65537, 65540, 70000, 131072, 131075] {
            for (hname, hist) in [("empty history", vec![]), ("complete packet delivered in it, given back", vec![Desc::complete(L3A, 0x0800, &[0x61]).print()]), ("train left unfinished, complete packet delivered, given back", vec![Desc::first(L3A, 0x0800, 1, 11, &[0x62, 0x63]).print(), Desc::complete(L6A, 0x0800, &[0x64]).print()])] {
                for f in [0u8, 1, 2, 255] {
                    let mut d = RxS::new(2, 64, &[64, 64]).build(DefaultCrc {}, mgr.clone());
                    for h in &hist {
                        if let DecapOut::Completed { buf, .. } = do_decap(&mut d, h) {
                            let _ = d.provision_storage(vec![0u8; buf.len()].into_boxed_slice());
                        }
                    }
                    d.reset_last_label();
                    // the one storage the caller makes available is the large one
                    let _ = d.provision_storage(vec![0u8; big].into_boxed_slice());
                    let (p1, p2, p3, _) = train(L6B, f, &pdu_z, 0x0800);
                    let o1 = do_decap(&mut d, &p1);
                    let o2 = do_decap(&mut d, &p2);
                    let o3 = do_decap(&mut d, &p3);
                    acc.states += 1;
                    acc.transitions += 3 + hist.len() as u64;
                    acc.calls += 3 + hist.len() as u64;
                    acc.compared += 1;
                    if let Some(why) = expect_completed(&o3, &pdu_z, 0x0800, L6B, p3.len()) {
                        rep.violation(&format!("C16|large-storage|train-probe|{}", o1.class()), big as u64, || (format!("after {}, reset + provision of a {}-byte storage: a valid 3-fragment PDU on frag id {} is not delivered: {} / {} / {} ({})", hname, big, f, o1.brief(), o2.brief(), o3.class(), why), json!({"storage_sizes": [64, big], "history": hist.iter().map(|h| hex(h)).collect::<Vec<_>>(), "packets": [hex(&p1), hex(&p2), hex(&p3)], "receiver": {"slots": 2, "storage": big, "buffers": 1}})));
                    }
                }
            }
        }
        rep.merge(acc);
        rep.part(json!({"part": "directed: storages of 65535..131075 bytes in the pool", "sizes": [65535, 65536, 65537, 65540, 70000, 131072, 131075]}));
    }
    // directed: long runs of one packet on a live object (no restore). The snapshot-based closure and the depth-bounded live
    // pass cannot see state that needs more than a handful of operations to build up (a counter of consecutive refusals,
    // a statistic that saturates); here every packet of the receiver alphabet is repeated n times for run lengths up to
    // 300 (past every 8-bit counter), delivered storages handed back as a caller would, then the recovery probes follow.
    {
        let alph = crate::rxalpha::alphabet(2);
        let lens: Vec<usize> = (1..=24).chain([31, 32, 33, 63, 64, 65, 100, 127, 128, 129, 200, 254, 255, 256, 257, 300]).collect();
        let cells: Vec<(usize, usize)> = (0..alph.len()).flat_map(|q| lens.iter().map(move |&n| (q, n))).collect();
        cells.par_iter().for_each(|&(q, n)| {
            let mut acc = Acc::default();
            let pkt = &alph[q];
            for probe in 0..2 {
                let mut d = RxS::new(2, 4, &[4, 4]).build(DefaultCrc {}, mgr.clone());
                let mut last = String::new();
                for _ in 0..n {
                    let o = do_decap(&mut d, &pkt.bytes);
                    last = o.class();
                    if let DecapOut::Completed { buf, .. } = o {
                        let _ = d.provision_storage(vec![0u8; buf.len()].into_boxed_slice());
                    }
                }
                acc.states += 1;
                acc.transitions += n as u64 + 2;
                acc.calls += n as u64 + 2;
                acc.compared += 1;
                d.reset_last_label();
                let _ = d.provision_storage(vec![0u8; 4].into_boxed_slice());
                let wit = |probe_pkts: Vec<String>| json!({"packets": std::iter::repeat(hex(&pkt.bytes)).take(n).chain(probe_pkts.into_iter()).collect::<Vec<_>>(), "run": {"packet": pkt.name, "times": n, "each_answered": last}, "receiver": {"slots": 2, "storage": 4, "buffers": 2}});
                if probe == 0 {
                    let c = Desc::complete(L3B, 0x86DD, &PDU_Z).print();
                    let out = do_decap(&mut d, &c);
                    acc.outcome(&format!("long-run:complete-probe:{}", out.class()));
                    if let Some(why) = expect_completed(&out, &PDU_Z, 0x86DD, L3B, c.len()) {
                        rep.violation(&format!("C16|long-run|complete-probe|{}", out.class()), n as u64, || (format!("after {} x packet '{}' (each answered {}), reset + provision: a valid complete packet is not delivered: {}", n, pkt.name, last, why), wit(vec![hex(&c)])));
                    }
                } else {
                    let (p1, p2, p3, _) = train(L6B, 2, &PDU_Z, 0x0800);
                    let o1 = do_decap(&mut d, &p1);
                    let o2 = do_decap(&mut d, &p2);
                    let o3 = do_decap(&mut d, &p3);
                    acc.outcome(&format!("long-run:train-probe:{}/{}/{}", o1.class(), o2.class(), o3.class()));
                    if let Some(why) = expect_completed(&o3, &PDU_Z, 0x0800, L6B, p3.len()) {
                        rep.violation(&format!("C16|long-run|train-probe|{}", o1.class()), n as u64, || (format!("after {} x packet '{}' (each answered {}), reset + provision: a valid 3-fragment PDU on frag id 2 is not delivered: {} / {} / {} ({})", n, pkt.name, last, o1.brief(), o2.brief(), o3.class(), why), wit(vec![hex(&p1), hex(&p2), hex(&p3)])));
                    }
                }
            }
            rep.merge(acc);
        });
        rep.part(json!({"part": "directed: long runs of one alphabet packet on a live receiver, then the recovery probes", "packets": alph.len(), "run_lengths": lens}));
    }
    // hidden-state robustness: every history up to a small depth on live objects (no restore)
    for slots in [1usize, 2] {
        crate::live::live_pass(&rep, "C16", crate::live::Oracle::Recovery, slots, if tier.thorough() { 6 } else { 5 });
    }
    rep.assume("the snapshot-based closure merges states by the snapshot of all fields the hooks expose; state outside it is covered only by the live pass (all histories up to depth 5, thorough 6, over an 18-op alphabet)");
    rep.finish(true)
}
