#!/usr/bin/env python3
"""tools/mkprompts.py <round-tag> <base-dir>  — writes <base-dir>/<Cxx>.prompt.txt for a new round of seeded changes.
Each prompt contains ONLY the property text (title, statement, quantifier), the scratch worktree path, and what earlier seeds of the
same property needed to manifest (so that the new one is different). Nothing else from /verif is revealed."""
import json, sys, glob, os
tag, base = sys.argv[1], sys.argv[2]
tmpl = open('/verif/tools/prompts/seed.tmpl').read()
props = [json.loads(l) for l in open('/verif/properties.jsonl')]
for p in props:
    pid = p['id']
    d = f"{base}/{pid}"
    text = f"Title: {p['title']}\n\nStatement: {p['statement']}\n\nQuantified over: {p['quantifier']}\n"
    taken = []
    for m in sorted(glob.glob(f'/verif/seeded/S*-{pid}/meta.json')):
        taken.append(json.load(open(m))['needs_to_manifest'])
    s = tmpl.replace('__DIR__', d).replace('__PROP__', text)
    if taken:
        s += "\n\nIMPORTANT: other people have already produced changes for this property. Yours must be of a DIFFERENT kind (another function, another path, another mechanism, another trigger). What the earlier ones were / needed to manifest:\n" + "\n".join(f" - {t}" for t in taken) + "\nPrefer mechanisms not in this list at all: e.g. state kept across calls, an interaction between two features (label re-use x extensions x fragmentation x storage exhaustion), a boundary of a different field, behaviour only after an error path, a caller-visible invariant broken without any wrong byte in the common case.\n"
    open(f"{base}/{pid}.prompt.txt", 'w').write(s)
print("ok")
