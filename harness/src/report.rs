//! Result collection, known-findings comparison, evidence and replay files.

use serde_json::{json, Value};
use std::collections::BTreeMap;
use std::sync::atomic::{AtomicU64, Ordering};
use std::sync::Mutex;
use std::time::Instant;

#[derive(Clone, Copy, PartialEq, Eq, Debug)]
pub enum Tier {
    Quick,
    Thorough,
}

impl Tier {
    pub fn name(self) -> &'static str {
        match self {
            Tier::Quick => "quick",
            Tier::Thorough => "thorough",
        }
    }
    pub fn thorough(self) -> bool {
        self == Tier::Thorough
    }
}

pub struct Viol {
    pub sig: String,
    pub what: String,
    pub witness: Value,
    pub rank: u64,
    pub count: u64,
}

/// Per-thread accumulator merged into the report (keeps hot loops lock free).
#[derive(Default)]
pub struct Acc {
    pub states: u64,
    pub transitions: u64,
    pub calls: u64,
    pub compared: u64,
    pub outcomes: BTreeMap<String, u64>,
    /// allocation-free variant for hot loops: (static name, small number) -> count
    pub souts: BTreeMap<(&'static str, u32), u64>,
}

impl Acc {
    pub fn sout(&mut self, k: &'static str, n: u32) {
        *self.souts.entry((k, n)).or_insert(0) += 1;
    }
    pub fn outcome(&mut self, k: &str) {
        if let Some(v) = self.outcomes.get_mut(k) {
            *v += 1;
        } else {
            self.outcomes.insert(k.to_string(), 1);
        }
    }
}

pub struct Report {
    pub prop: String,
    pub tier: Tier,
    pub seed: u64,
    start: Instant,
    pub states: AtomicU64,
    pub transitions: AtomicU64,
    pub calls: AtomicU64,
    pub compared: AtomicU64,
    outcomes: Mutex<BTreeMap<String, u64>>,
    samples: Mutex<Vec<(u64, Value)>>,
    viols: Mutex<BTreeMap<String, Viol>>,
    pub parts: Mutex<Vec<Value>>,
    pub assumptions: Mutex<Vec<String>>,
    pub caps_hit: Mutex<Vec<String>>,
    pub bounds_reached: Mutex<Vec<String>>,
    pub rule: Mutex<String>,
    pub max_depth: AtomicU64,
    pub wall_cap_s: f64,
}

fn mix(a: u64, b: u64) -> u64 {
    let mut x = a ^ b.wrapping_mul(0x9E37_79B9_7F4A_7C15);
    x ^= x >> 30;
    x = x.wrapping_mul(0xBF58_476D_1CE4_E5B9);
    x ^= x >> 27;
    x = x.wrapping_mul(0x94D0_49BB_1331_11EB);
    x ^ (x >> 31)
}

impl Report {
    pub fn new(prop: &str, tier: Tier) -> Report {
        let seed = std::env::var("VERIF_SEED").ok().and_then(|s| s.parse::<i64>().ok()).unwrap_or(0) as u64;
        Report {
            prop: prop.to_string(),
            tier,
            seed,
            start: Instant::now(),
            states: AtomicU64::new(0),
            transitions: AtomicU64::new(0),
            calls: AtomicU64::new(0),
            compared: AtomicU64::new(0),
            outcomes: Mutex::new(BTreeMap::new()),
            samples: Mutex::new(vec![]),
            viols: Mutex::new(BTreeMap::new()),
            parts: Mutex::new(vec![]),
            assumptions: Mutex::new(vec![]),
            caps_hit: Mutex::new(vec![]),
            bounds_reached: Mutex::new(vec![]),
            rule: Mutex::new(String::new()),
            max_depth: AtomicU64::new(0),
            wall_cap_s: if tier.thorough() { 1500.0 } else { 45.0 },
        }
    }

    pub fn elapsed(&self) -> f64 {
        self.start.elapsed().as_secs_f64()
    }

    /// true when the engine-internal wall cap is exceeded (callers stop enumerating and the
    /// run is reported as capped, never as a verdict on the unexplored part)
    pub fn over_time(&self) -> bool {
        self.elapsed() > self.wall_cap_s
    }

    pub fn cap(&self, what: &str) {
        let mut c = self.caps_hit.lock().unwrap();
        if !c.iter().any(|x| x == what) {
            c.push(what.to_string());
        }
    }

    /// a declared exploration bound (depth) was reached: everything below it was covered completely
    pub fn bound(&self, what: &str) {
        let mut c = self.bounds_reached.lock().unwrap();
        if !c.iter().any(|x| x == what) {
            c.push(what.to_string());
        }
    }

    pub fn merge(&self, a: Acc) {
        self.states.fetch_add(a.states, Ordering::Relaxed);
        self.transitions.fetch_add(a.transitions, Ordering::Relaxed);
        self.calls.fetch_add(a.calls, Ordering::Relaxed);
        self.compared.fetch_add(a.compared, Ordering::Relaxed);
        let mut o = self.outcomes.lock().unwrap();
        for (k, v) in a.outcomes {
            *o.entry(k).or_insert(0) += v;
        }
        for ((k, n), v) in a.souts {
            *o.entry(format!("{}:{}", k, n)).or_insert(0) += v;
        }
    }

    pub fn outcome(&self, k: &str, n: u64) {
        *self.outcomes.lock().unwrap().entry(k.to_string()).or_insert(0) += n;
    }

    pub fn depth(&self, d: u64) {
        self.max_depth.fetch_max(d, Ordering::Relaxed);
    }

    pub fn assume(&self, s: &str) {
        let mut a = self.assumptions.lock().unwrap();
        if !a.iter().any(|x| x == s) {
            a.push(s.to_string());
        }
    }

    pub fn set_rule(&self, s: &str) {
        *self.rule.lock().unwrap() = s.to_string();
    }

    /// record one part of the run (name, bounds, counts) for the evidence file
    pub fn part(&self, v: Value) {
        self.parts.lock().unwrap().push(v);
    }

    /// offer a sample; the `seed` decides which of the offered cases are kept (never what is explored)
    pub fn sample(&self, idx: u64, f: impl FnOnce() -> Value) {
        let key = mix(self.seed, idx);
        let mut s = self.samples.lock().unwrap();
        if s.len() < 6 {
            s.push((key, f()));
            s.sort_by_key(|x| x.0);
        } else if key < s.last().unwrap().0 {
            s.pop();
            s.push((key, f()));
            s.sort_by_key(|x| x.0);
        }
    }

    /// cheap pre-test to avoid building sample values in hot loops
    pub fn sample_wanted(&self, idx: u64) -> bool {
        mix(self.seed, idx) % 9973 == 0
    }

    pub fn violation(&self, sig: &str, rank: u64, what: impl FnOnce() -> (String, Value)) {
        let mut v = self.viols.lock().unwrap();
        match v.get_mut(sig) {
            Some(old) => {
                old.count += 1;
                if rank < old.rank {
                    let (w, wit) = what();
                    old.what = w;
                    old.witness = wit;
                    old.rank = rank;
                }
            }
            None => {
                let (w, wit) = what();
                v.insert(sig.to_string(), Viol { sig: sig.to_string(), what: w, witness: wit, rank, count: 1 });
            }
        }
    }

    /// move the violations and outcome counts of a sub-report (one case) into this report
    pub fn drain_into(&self, main: &Report, case: &str) {
        let v = std::mem::take(&mut *self.viols.lock().unwrap());
        for (sig, viol) in v {
            let (w, wit, rank) = (viol.what, viol.witness, viol.rank);
            main.violation(&sig, rank, || (w, json!({"case": case, "witness": wit})));
        }
        let o = std::mem::take(&mut *self.outcomes.lock().unwrap());
        let mut mo = main.outcomes.lock().unwrap();
        for (k, n) in o {
            *mo.entry(k).or_insert(0) += n;
        }
        for c in self.caps_hit.lock().unwrap().iter() {
            main.cap(c);
        }
    }

    pub fn n_viol_sigs(&self) -> usize {
        self.viols.lock().unwrap().len()
    }

    /// Compare with the known-findings file, write replays + evidence, print verdict lines.
    /// Returns the process exit code.
    pub fn finish(&self, level_states_min1: bool) -> i32 {
        let _ = level_states_min1;
        let verif = verif_dir();
        let known = load_known(&verif);
        let viols = self.viols.lock().unwrap();
        let mut unlisted = 0;
        let mut known_seen = vec![];
        std::fs::create_dir_all(format!("{}/replays", verif)).ok();
        // stale witnesses of earlier runs of this property are removed
        if let Ok(rd) = std::fs::read_dir(format!("{}/replays", verif)) {
            for e in rd.flatten() {
                if e.file_name().to_string_lossy().starts_with(&format!("{}-", self.prop)) {
                    let _ = std::fs::remove_file(e.path());
                }
            }
        }
        let mut n = 0;
        for (sig, v) in viols.iter() {
            if let Some(what) = known.get(&(self.prop.clone(), sig.clone())) {
                println!("KNOWN-FINDING: property={} {} [{}] (seen {}x)", self.prop, what, sig, v.count);
                known_seen.push(json!({"signature": sig, "what": what, "count": v.count}));
            } else {
                n += 1;
                unlisted += 1;
                let path = format!("{}/replays/{}-{}.json", verif, self.prop, n);
                let doc = json!({
                    "property": self.prop,
                    "signature": sig,
                    "what": v.what,
                    "occurrences_in_this_run": v.count,
                    "witness": v.witness,
                });
                std::fs::write(&path, serde_json::to_string_pretty(&doc).unwrap()).ok();
                println!("VIOLATION property={} replay={}", self.prop, path);
                println!("  signature: {}", sig);
                println!("  what: {}", v.what);
            }
        }
        let outcomes = self.outcomes.lock().unwrap().clone();
        let caps = self.caps_hit.lock().unwrap().clone();
        let mut samples: Vec<Value> = self.samples.lock().unwrap().iter().map(|x| x.1.clone()).collect();
        if samples.is_empty() {
            samples.push(json!("no sample offered"));
        }
        let states = self.states.load(Ordering::Relaxed);
        let transitions = self.transitions.load(Ordering::Relaxed);
        let calls = self.calls.load(Ordering::Relaxed);
        let compared = self.compared.load(Ordering::Relaxed);
        let ev = json!({
            "property_id": self.prop,
            "tier": self.tier.name(),
            "seed": self.seed as i64,
            "level": "model_checking",
            "coverage": {
                "states": states,
                "transitions": transitions,
                "traces_validated_against_impl": compared,
                "evaluations": calls,
                "distinct_nontrivial": outcomes.len(),
                "rule": self.rule.lock().unwrap().clone(),
                "exhaustive": caps.is_empty(),
                "exhaustive_note": "true = the declared finite space (closure, or everything up to the declared depth bound / over the declared lattice) was enumerated completely; false = a wall-clock or state cap stopped the enumeration early (see caps_hit)",
                "caps_hit": caps,
                "declared_bounds_reached": self.bounds_reached.lock().unwrap().clone(),
                "max_depth": self.max_depth.load(Ordering::Relaxed),
                "distinct_outcomes": outcomes,
                "parts": self.parts.lock().unwrap().clone(),
                "samples": samples,
                "explanation": "states = distinct explored states of the closed system (state graphs) or distinct cells of the enumerated input lattice; transitions = executions of the real API on real objects; traces_validated_against_impl = steps on which the reference model / oracle was compared with the implementation's observable result (every transition is an execution of the implementation itself, there is no separate model to bind)",
            },
            "assumptions": self.assumptions.lock().unwrap().clone(),
            "wall_s": self.elapsed(),
            "violations": unlisted,
            "known_findings_seen": known_seen,
        });
        std::fs::create_dir_all(format!("{}/evidence", verif)).ok();
        let path = format!("{}/evidence/{}.json", verif, self.prop);
        if let Err(e) = std::fs::write(&path, serde_json::to_string_pretty(&ev).unwrap()) {
            eprintln!("MACHINERY-ERROR: cannot write evidence {}: {}", path, e);
            return 2;
        }
        if states == 0 || transitions == 0 {
            eprintln!("MACHINERY-ERROR: vacuous run (states={} transitions={})", states, transitions);
            return 2;
        }
        println!(
            "{} {}: states={} transitions={} compared={} distinct_outcomes={} caps={:?} wall={:.1}s unlisted_violations={} known_seen={}",
            self.prop,
            self.tier.name(),
            states,
            transitions,
            compared,
            ev["coverage"]["distinct_nontrivial"],
            ev["coverage"]["caps_hit"],
            self.elapsed(),
            unlisted,
            ev["known_findings_seen"].as_array().unwrap().len()
        );
        if unlisted > 0 {
            1
        } else {
            0
        }
    }
}

pub fn verif_dir() -> String {
    std::env::var("GSEMC_VERIF_DIR").unwrap_or_else(|_| "/verif".to_string())
}

/// (property, signature) -> what
fn load_known(verif: &str) -> BTreeMap<(String, String), String> {
    let mut m = BTreeMap::new();
    let path = format!("{}/known_findings.json", verif);
    let Ok(s) = std::fs::read_to_string(&path) else {
        return m;
    };
    let v: Value = match serde_json::from_str(&s) {
        Ok(v) => v,
        Err(e) => {
            eprintln!("MACHINERY-ERROR: {} does not parse: {}", path, e);
            std::process::exit(2);
        }
    };
    if let Some(a) = v.get("known").and_then(|x| x.as_array()) {
        for k in a {
            let p = k["property"].as_str().unwrap_or("").to_string();
            let s = k["signature"].as_str().unwrap_or("").to_string();
            let w = k["what"].as_str().unwrap_or("").to_string();
            m.insert((p, s), w);
        }
    }
    m
}
