//! C01 — unfragmented round trip preserves PDU, protocol type and label; encap reports a
//! completed packet exactly when everything fits.

use crate::common::*;
use crate::report::{Acc, Report, Tier};
use crate::rx::*;
use crate::tx::*;
use dvb_gse_rust::crc::DefaultCrc;
use dvb_gse_rust::gse_encap::Encapsulator;
use rayon::prelude::*;
use serde_json::json;

#[derive(Clone, Copy, Debug, PartialEq, Eq)]
enum Row {
    Plain(bool),  // re-use enabled?
    AfterSame,    // same label sent just before, re-use enabled: substitution expected to be possible
    AfterSameOff, // same label sent just before, re-use disabled
    /// another label was sent, then an encap_ext / encap call with THIS label failed (nothing on the wire)
    AfterOtherThenFailed,
    /// first fragment of a PDU with another label, then a complete packet with THIS label, then the
    /// end fragment of the other PDU: the case packet is then expected to use re-use
    AfterInterleavedTrain,
    /// another label delivered, then a complete packet with THIS label refused by the receiver for lack of
    /// storage, storage provisioned again: the label memories are out of step through no fault of either
    /// side, so delivery is not demanded, only that nothing is delivered under another label
    AfterRejectedForStorage,
    /// re-use enabled with at most `max` consecutive re-use labels, then THIS label sent 1 + `sent` times (all fed
    /// to the receiver): the counter is below, at, or (for sent > max) once past the limit
    AfterSameWithMax { max: u8, sent: u8 },
    /// THIS label sent, re-use switched off, another label (or broadcast) sent, re-use switched on again (plain or
    /// with a limit): what was sent while re-use was off must not leave a stale reference behind
    AfterOffOtherOn { bcast: bool, max: u8 },
    /// like AfterSame, then the receiver sees rejected continuation packets (intermediate and end fragments of an
    /// unknown fragment id, as left over from a PDU whose first fragment was lost) before the packet under test
    AfterSameThenStrays,
    /// THIS label sent, then ANOTHER label sent through encap_ext (one optional extension), as a complete packet or as
    /// the first fragment of a 12-byte PDU: both ends now remember the other label
    AfterSameThenExtOther { frag: bool },
}

struct Case<'a> {
    p: usize,
    l: Lbl,
    row: Row,
    b: usize,
    pt: u16,
    storage: usize,
    content: &'a [u8],
    content_desc: String,
}

fn run_case(rep: &Report, acc: &mut Acc, c: &Case) {
    let mut enc = Encapsulator::new(DefaultCrc {});
    let mut rx = RxS::new(1, c.storage, &[c.storage, c.storage]).build(DefaultCrc {}, TableMgr::none());
    let mut steps: Vec<String> = vec![];
    match c.row {
        Row::Plain(on) => {
            if !on {
                enc.disable_re_use_label();
                steps.push("disable_re_use_label".into());
            }
        }
        Row::AfterSameThenStrays => {
            let mut scratch = [0u8; 32];
            let o = do_encap(&mut enc, &[0x42], 0, 0x0800, c.l, &mut scratch);
            let n = o.len().unwrap_or(0);
            if let DecapOut::Completed { buf, .. } = do_decap(&mut rx, &scratch[..(n).min(scratch.len())]) {
                let _ = rx.provision_storage(buf.into_boxed_slice());
            }
            let s1 = do_decap(&mut rx, &crate::refm::Desc::inter(77, &[0xD1, 0xD2]).print());
            let s2 = do_decap(&mut rx, &crate::refm::Desc::end(78, &[0xD3], 0x0102_0304).print());
            steps.push(format!("encap(1-byte pdu, label {}) -> {:?}; decap; stray intermediate (id 77) -> {}; stray end (id 78) -> {}", c.l.short(), o, s1.class(), s2.class()));
        }
        Row::AfterSameThenExtOther { frag } => {
            let other = if c.l == L6B { L6A } else { L6B };
            let st = c.storage.max(12);
            rx = RxS::new(2, st, &[st, st, st]).build(DefaultCrc {}, TableMgr::none());
            let mut scratch = [0u8; 64];
            let o = do_encap(&mut enc, &[0x42], 0, 0x0800, c.l, &mut scratch);
            let n = o.len().unwrap_or(0);
            if let DecapOut::Completed { buf, .. } = do_decap(&mut rx, &scratch[..(n).min(scratch.len())]) {
                let _ = rx.provision_storage(buf.into_boxed_slice());
            }
            let big = [0x55u8; 12];
            let o2 = if frag { do_encap_ext(&mut enc, &big, 9, 0x0800, other, &mut scratch[..17], &[(0x0101, vec![])]) } else { do_encap_ext(&mut enc, &[0x43], 0, 0x0800, other, &mut scratch, &[(0x0101, vec![])]) };
            let n2 = o2.len().unwrap_or(0);
            let d2 = do_decap(&mut rx, &scratch[..(n2).min(scratch.len())]);
            let d2c = d2.class();
            if let DecapOut::Completed { buf, .. } = d2 {
                let _ = rx.provision_storage(buf.into_boxed_slice());
            }
            steps.push(format!("encap(1-byte pdu, label {}) -> {:?}; decap; encap_ext({}, label {}, extension 0x0101) -> {:?}; decap -> {}", c.l.short(), o, if frag { "12-byte pdu, 17-byte buffer" } else { "1-byte pdu" }, other.short(), o2, d2c));
        }
        Row::AfterSame | Row::AfterSameOff => {
            let mut scratch = [0u8; 32];
            let o = do_encap(&mut enc, &[0x42], 0, 0x0800, c.l, &mut scratch);
            let n = o.len().unwrap_or(0);
            let d = do_decap(&mut rx, &scratch[..(n).min(scratch.len())]);
            if let DecapOut::Completed { buf, .. } = d {
                let _ = rx.provision_storage(buf.into_boxed_slice());
            }
            steps.push(format!("encap(1-byte pdu, label {}) -> {:?}; decap", c.l.short(), o));
            if c.row == Row::AfterSameOff {
                enc.disable_re_use_label();
                steps.push("disable_re_use_label".into());
            }
        }
        Row::AfterOffOtherOn { bcast, max } => {
            let other = if bcast { Lbl::Bcast } else if c.l == L6B { L6A } else { L6B };
            for (k, l) in [(0u8, c.l), (1, other)] {
                let mut scratch = [0u8; 32];
                let o = do_encap(&mut enc, &[0x42 + k], 0, 0x0800, l, &mut scratch);
                let n = o.len().unwrap_or(0);
                if let DecapOut::Completed { buf, .. } = do_decap(&mut rx, &scratch[..(n).min(scratch.len())]) {
                    let _ = rx.provision_storage(buf.into_boxed_slice());
                }
                steps.push(format!("encap(1-byte pdu, label {}) -> {:?}; decap", l.short(), o));
                if k == 0 {
                    enc.disable_re_use_label();
                    steps.push("disable_re_use_label".into());
                }
            }
            if max == 0 {
                enc.enable_re_use_label();
                steps.push("enable_re_use_label".into());
            } else {
                enc.enable_re_use_label_with_max_consecutive(max);
                steps.push(format!("enable_re_use_label_with_max_consecutive({})", max));
            }
        }
        Row::AfterSameWithMax { max, sent } => {
            enc.enable_re_use_label_with_max_consecutive(max);
            steps.push(format!("enable_re_use_label_with_max_consecutive({})", max));
            for k in 0..=sent {
                let mut scratch = [0u8; 32];
                let o = do_encap(&mut enc, &[0x42 + k], 0, 0x0800, c.l, &mut scratch);
                let n = o.len().unwrap_or(0);
                if let DecapOut::Completed { buf, .. } = do_decap(&mut rx, &scratch[..(n).min(scratch.len())]) {
                    let _ = rx.provision_storage(buf.into_boxed_slice());
                }
                steps.push(format!("encap(1-byte pdu, label {}) -> {:?}; decap", c.l.short(), o));
            }
        }
        Row::AfterInterleavedTrain => {
            let other = if c.l == L6B { L6A } else { L6B };
            let big = [0x55u8; 12];
            let mut b1 = [0u8; 16];
            let o1 = do_encap(&mut enc, &big, 9, 0x0800, other, &mut b1);
            let mut fed = vec![];
            if let EncOut::Fragmented(n1, ctx) = o1 {
                fed.push(b1[..(n1).min(b1.len())].to_vec());
                let mut b2 = [0u8; 32];
                if let Some(n2) = do_encap(&mut enc, &[0x42], 0, 0x0800, c.l, &mut b2).len() {
                    fed.push(b2[..(n2).min(b2.len())].to_vec());
                }
                let mut b3 = [0u8; 32];
                if let EncOut::Completed(n3) = do_encap_frag(&enc, &big, ctx, &mut b3) {
                    fed.push(b3[..(n3).min(b3.len())].to_vec());
                }
            }
            // the receiver of this row needs room for the 12-byte PDU as well
            rx = RxS::new(2, c.storage.max(12), &[c.storage.max(12), c.storage.max(12), c.storage.max(12)]).build(DefaultCrc {}, TableMgr::none());
            for f in &fed {
                if let DecapOut::Completed { buf, .. } = do_decap(&mut rx, f) {
                    let _ = rx.provision_storage(buf.into_boxed_slice());
                }
            }
            steps.push(format!("first fragment(label {}), complete(label {}), end fragment: {} packets fed", other.short(), c.l.short(), fed.len()));
        }
        Row::AfterRejectedForStorage => {
            let other = if c.l == L6B { L6A } else { L6B };
            let mut scratch = [0u8; 32];
            let n0 = do_encap(&mut enc, &[0x42], 0, 0x0800, other, &mut scratch).len().unwrap_or(0);
            let held0 = match do_decap(&mut rx, &scratch[..n0]) {
                DecapOut::Completed { buf, .. } => Some(buf),
                _ => None,
            };
            // drain the receiver: the application keeps the storages for a while
            let mut held = vec![];
            while let Ok(b) = rx.new_pdu() {
                held.push(b);
            }
            let n1 = do_encap(&mut enc, &[0x43], 0, 0x0800, c.l, &mut scratch).len().unwrap_or(0);
            let r = do_decap(&mut rx, &scratch[..(n1).min(scratch.len())]);
            for b in held {
                let _ = rx.provision_storage(b);
            }
            if let Some(b) = held0 {
                let _ = rx.provision_storage(b.into_boxed_slice());
            }
            steps.push(format!("complete(label {}) delivered; complete(label {}) with no free storage -> {}; storages provisioned again", other.short(), c.l.short(), r.class()));
        }
        Row::AfterOtherThenFailed => {
            let other = if c.l == L6B { L6A } else { L6B };
            let mut scratch = [0u8; 32];
            let o = do_encap(&mut enc, &[0x42], 0, 0x0800, other, &mut scratch);
            let n = o.len().unwrap_or(0);
            let d = do_decap(&mut rx, &scratch[..(n).min(scratch.len())]);
            if let DecapOut::Completed { buf, .. } = d {
                let _ = rx.provision_storage(buf.into_boxed_slice());
            }
            let mut tiny = [0u8; 3];
            let f1 = do_encap_ext(&mut enc, &[0x43], 0, 0x0800, c.l, &mut tiny, &[(0x0101, vec![])]);
            let f2 = do_encap(&mut enc, &[0x43], 0, 0x0800, c.l, &mut tiny);
            steps.push(format!("encap(label {}) -> {:?}; decap; encap_ext(label {}, 3-byte buffer) -> {:?}; encap(label {}, 3-byte buffer) -> {:?}", other.short(), o, c.l.short(), f1, c.l.short(), f2));
        }
    }
    let mut buf = vec![0xA5u8; c.b];
    let out = do_encap(&mut enc, c.content, 0x33, c.pt, c.l, &mut buf);
    acc.states += 1;
    acc.transitions += 1;
    acc.calls += 1;
    let lw_full = c.l.wire_len();
    let fits_full = 2 + lw_full + c.p <= GSE_LEN_MAX && c.b >= 4 + lw_full + c.p;
    let fits_empty = 2 + c.p <= GSE_LEN_MAX && c.b >= 4 + c.p;
    let may_sub = (matches!(c.row, Row::AfterSameWithMax { .. }) || c.row == Row::AfterSame || c.row == Row::AfterSameThenStrays || c.row == Row::AfterInterleavedTrain || c.row == Row::AfterRejectedForStorage) && c.l.is_addr();
    let rank = (c.p * 100_000 + c.b) as u64;
    let wit = || {
        json!({"prefix": steps, "call":"encap","pdu_len":c.p,"content":c.content_desc,"frag_id":0x33,"pt":c.pt,"label":c.l.short(),"buffer_len":c.b,"row":format!("{:?}",c.row),"storage":c.storage,"result":format!("{:?}",out)})
    };
    let reg = if c.p + lw_full + 2 > GSE_LEN_MAX - 8 { "near-4095" } else { "small" };
    acc.outcome(&format!("{}:{}:{:?}:{}", out.class(), c.l.short().split(':').next().unwrap(), c.row, reg));
    match &out {
        EncOut::Completed(n) => {
            let n = *n;
            if !(fits_full || (may_sub && fits_empty)) {
                rep.violation(&format!("C01|complete-but-does-not-fit|{}", reg), rank, || (format!("encap(pdu_len={}, label={}, buffer={}) reports a completed packet of {} bytes although label+PDU do not fit", c.p, c.l.short(), c.b, n), wit()));
                return;
            }
            if n > c.b {
                rep.violation("C01|reported-length>buffer", rank, || (format!("reported length {} > buffer {}", n, c.b), wit()));
                return;
            }
            // round trip: exactly the reported bytes
            let d = do_decap(&mut rx, &buf[..(n).min(buf.len())]);
            acc.transitions += 1;
            acc.calls += 1;
            acc.compared += 1;
            match &d {
                DecapOut::Completed { buf: got, meta, consumed } => {
                    let mut bad = vec![];
                    if *consumed != n {
                        bad.push(format!("decap consumed {} instead of the reported {}", consumed, n));
                    }
                    if meta.pdu_len != c.p {
                        bad.push(format!("pdu_len {} instead of {}", meta.pdu_len, c.p));
                    }
                    if got.len() < c.p || &got[..c.p] != c.content {
                        bad.push("PDU bytes differ".to_string());
                    }
                    if meta.pt != c.pt {
                        bad.push(format!("protocol type {:#06x} instead of {:#06x}", meta.pt, c.pt));
                    }
                    if meta.label != c.l {
                        bad.push(format!("label {} instead of {}", meta.label.short(), c.l.short()));
                    }
                    if !meta.exts.is_empty() {
                        bad.push("extensions reported for a packet without extensions".to_string());
                    }
                    for b in bad {
                        let cl = b.split(' ').take(2).collect::<Vec<_>>().join("-");
                        rep.violation(&format!("C01|roundtrip|{}|{:?}", cl, c.row), rank, || (format!("encap(pdu_len={}, pt={:#06x}, label={}, buffer={}) -> {:?}; decap of exactly {} bytes (storage {}): {}", c.p, c.pt, c.l.short(), c.b, out, n, c.storage, b), wit()));
                    }
                }
                DecapOut::Err { .. } if c.row == Row::AfterRejectedForStorage => {
                    // the receiver lost the packet that carried the label: failing to resolve is allowed
                }
                other => {
                    rep.violation(&format!("C01|roundtrip|not-delivered|{}|{:?}", other.class(), c.row), rank, || (format!("encap(pdu_len={}, pt={:#06x}, label={}, buffer={}) -> {:?}; decap of exactly {} bytes (storage {}) -> {}", c.p, c.pt, c.l.short(), c.b, out, n, c.storage, other.brief()), wit()));
                }
            }
        }
        EncOut::Panic(p) => {
            // totality as such is C09's; here only the demand "must report a completed packet whenever it fits"
            if fits_full {
                rep.violation(&format!("C01|fits-but-not-complete|PANIC|{}", reg), rank, || (format!("encap(pdu_len={}, pt={:#06x}, label={}, buffer={}) must report a completed packet (GSE length {} <= 4095, packet {} <= buffer) but panics at {}", c.p, c.pt, c.l.short(), c.b, 2 + lw_full + c.p, 4 + lw_full + c.p, p), wit()));
            }
        }
        other => {
            // label as written: known from the LT bits when a packet was produced (empty after a substitution)
            let fits_as_written = match other {
                EncOut::Fragmented(..) if c.b >= 1 && (buf[0] >> 4) & 3 == 3 && c.l != Lbl::ReUse => fits_empty,
                _ => false,
            };
            if fits_as_written && !fits_full {
                rep.violation(&format!("C01|fits-as-written-but-not-complete|{}", reg), rank, || (format!("encap(pdu_len={}, pt={:#06x}, label={}, buffer={}) wrote a re-use label (empty) so that GSE length {} <= 4095 and packet {} <= buffer, but returned {:?} instead of a completed packet", c.p, c.pt, c.l.short(), c.b, 2 + c.p, 4 + c.p, other), wit()));
            }
            if fits_full {
                rep.violation(&format!("C01|fits-but-not-complete|{}|{}", other.class(), reg), rank, || (format!("encap(pdu_len={}, pt={:#06x}, label={}, buffer={}) must report a completed packet (GSE length {} <= 4095, packet {} <= buffer) but returned {:?}", c.p, c.pt, c.l.short(), c.b, 2 + lw_full + c.p, 4 + lw_full + c.p, other), wit()));
            }
        }
    }
    if rep.sample_wanted(rank ^ c.storage as u64) {
        rep.sample(rank, || wit());
    }
}

pub fn run(tier: Tier) -> i32 {
    let rep = Report::new("C01", tier);
    rep.set_rule("lattice: label kind x row (re-use on/off, after the same label with re-use on/off, after another label followed by failed encap_ext/encap calls with this label, after a complete packet with this label interleaved inside another PDU's fragment train, after 1 + k packets with this label under a limit of m consecutive re-use labels for (m,k) in {(1,1),(2,1),(2,2),(1,2)}, after this label, re-use off, another label or broadcast, re-use on again, after this label followed by rejected continuation packets of unknown ids on the receiver side, after this label followed by another label sent through encap_ext as a complete packet or as a first fragment) x PDU length (every length 0..=4100) x buffer length relative to the exact packet size and beyond 4097 x protocol type x storage size >= PDU (exact, +1, +7, 4096, and 65536 / 65535 + PDU length / 131072 whose lengths do not fit 16 bits) x content pattern, all contents for lengths 0..=2 (0..=1 in quick); each cell = real encap + real decap of exactly the reported bytes; distinct = (status, label kind, row, regime)");
    rep.assume("payload contents beyond 2 bytes are represented by four patterns (position tag, zeros, ones, second tag)");
    let labels = [L6A, L3A, Lbl::Bcast, L6B, L3B, L3Z];
    let ps: Vec<usize> = (0..=4100).collect();
    let pts = [0x0600u16, 0x0800, 0x86DD, 0xFFFF];
    let cells: Vec<(usize, Lbl)> = ps.iter().flat_map(|&p| labels.into_iter().map(move |l| (p, l))).collect();
    cells.par_iter().for_each(|&(p, l)| {
        if rep.over_time() {
            rep.cap("lattice: wall cap");
            return;
        }
        let mut acc = Acc::default();
        let rows: Vec<Row> = if l.is_addr() { vec![Row::Plain(true), Row::Plain(false), Row::AfterSame, Row::AfterSameOff, Row::AfterOtherThenFailed, Row::AfterInterleavedTrain, Row::AfterRejectedForStorage, Row::AfterSameWithMax { max: 1, sent: 1 }, Row::AfterSameWithMax { max: 2, sent: 1 }, Row::AfterSameWithMax { max: 2, sent: 2 }, Row::AfterSameWithMax { max: 1, sent: 2 }, Row::AfterOffOtherOn { bcast: false, max: 0 }, Row::AfterOffOtherOn { bcast: true, max: 0 }, Row::AfterOffOtherOn { bcast: false, max: 4 }, Row::AfterSameThenStrays, Row::AfterSameThenExtOther { frag: false }, Row::AfterSameThenExtOther { frag: true }] } else { vec![Row::Plain(true), Row::Plain(false)] };
        for (ri, &row) in rows.iter().enumerate() {
            for lw in [l.wire_len(), 0] {
                let size = 4 + lw + p;
                let mut bl = vec![size.saturating_sub(1), size, size + 1, size + 2, 4096, 4097, 4098, 5000, 70000];
                bl.sort();
                bl.dedup();
                for (bi, &b) in bl.iter().enumerate() {
                    let storages: Vec<usize> = if p <= 8 || (tier.thorough() && (p + bi + ri) % 4 == 0) { vec![p, p + 1, p + 7, 4096, 70000, 65536, 65536 + p.saturating_sub(1), 131072] } else if tier.thorough() { vec![p, p + 1, p + 7, 4096, 70000] } else { vec![[p, p + 1, p + 7, 4096, p, p + 1, p + 7, 4096, p, p + 1, 65536, 65536 + p.saturating_sub(1)][(p + bi + ri) % 12]] };
                    for st in storages {
                        let pat = ((p + bi + ri) % 4) as u8;
                        let content = pdu(p, pat);
                        let pt = pts[(p + bi) % 4];
                        run_case(&rep, &mut acc, &Case { p, l, row, b, pt, storage: st.max(1), content: &content, content_desc: format!("pattern{}", pat) });
                    }
                }
            }
        }
        rep.merge(acc);
    });
    rep.part(json!({"part":"size lattice","pdu_lengths":ps.len(),"labels":5}));

    // all contents for tiny PDUs
    let maxlen = if tier.thorough() { 2 } else { 1 };
    let mut contents: Vec<Vec<u8>> = vec![vec![]];
    for a in 0..=255u8 {
        contents.push(vec![a]);
    }
    if maxlen == 2 {
        for a in 0..=255u8 {
            for b in 0..=255u8 {
                contents.push(vec![a, b]);
            }
        }
    }
    contents.par_chunks(256).for_each(|chunk| {
        let mut acc = Acc::default();
        for c in chunk {
            let mut lbls = vec![L6A, L3A, Lbl::Bcast];
            if c.len() <= 1 {
                lbls.extend(special_labels());
            }
            for l in lbls {
                for row in [Row::Plain(true), Row::AfterSame] {
                    if row == Row::AfterSame && !l.is_addr() {
                        continue;
                    }
                    let p = c.len();
                    run_case(&rep, &mut acc, &Case { p, l, row, b: 4 + l.wire_len() + p, pt: 0x0800, storage: p.max(1), content: c, content_desc: hex(c) });
                }
            }
        }
        rep.merge(acc);
    });
    rep.part(json!({"part":"all contents","max_len":maxlen,"contents":contents.len()}));

    // protocol types
    let pts: Vec<u32> = if tier.thorough() { (0x0600..=0xFFFF).collect() } else { (0x0600..=0x0700).chain(0x7FF0..=0x8010).chain(0xFF00..=0xFFFF).collect() };
    pts.par_chunks(256).for_each(|chunk| {
        let mut acc = Acc::default();
        for &pt in chunk {
            for p in [0usize, 1, 26] {
                let content = pdu(p, 0);
                for l in [L6A, L3A, Lbl::Bcast] {
                    run_case(&rep, &mut acc, &Case { p, l, row: Row::Plain(true), b: 64, pt: pt as u16, storage: 26, content: &content, content_desc: "pattern0".into() });
                }
            }
        }
        rep.merge(acc);
    });
    rep.part(json!({"part":"protocol types","count":pts.len()}));
    rep.finish(true)
}
