pub mod c14;
