//! Explicit-state breadth-first explorer over a closed system built around the real objects.
//! Level-synchronous, successors computed in parallel, insertion into `seen` sequential and in
//! a fixed order, so state/transition counts and witnesses are deterministic. `seen` is keyed by
//! the full canonical state (no hash compaction). Parent pointers give shortest witnesses.

use crate::report::{Acc, Report};
use rayon::prelude::*;
use serde_json::{json, Value};
use std::collections::HashMap;
use std::fmt::Debug;
use std::hash::Hash;

pub struct StepOut<S> {
    pub next: Option<S>,
    /// (signature, description)
    pub viols: Vec<(String, String)>,
}

pub trait System: Sync {
    type State: Clone + Eq + Hash + Send + Sync + Debug;
    type Op: Clone + Send + Sync + Debug;
    fn init(&self) -> Vec<Self::State>;
    fn ops(&self, s: &Self::State) -> Vec<Self::Op>;
    /// Restores the real objects from `s`, performs `op` on them through the real API, evaluates
    /// the oracle, snapshots.
    fn step(&self, s: &Self::State, op: &Self::Op, acc: &mut Acc) -> StepOut<Self::State>;
    fn op_json(&self, op: &Self::Op) -> Value {
        json!(format!("{:?}", op))
    }
    /// extra, state-local invariant (evaluated once per distinct state)
    fn invariant(&self, _s: &Self::State) -> Vec<(String, String)> {
        vec![]
    }
}

pub struct Limits {
    pub max_states: usize,
    pub max_depth: usize,
}

pub struct Explored<Sy: System> {
    pub states: Vec<Sy::State>,
    pub meta: Vec<(u32, Option<Sy::Op>, u32)>, // parent, op, depth
    pub transitions: u64,
    pub depth: usize,
    pub closed: bool,
}

impl<Sy: System> Explored<Sy> {
    pub fn path(&self, mut idx: usize) -> Vec<Sy::Op> {
        let mut ops = vec![];
        while let (p, Some(op), _) = &self.meta[idx] {
            ops.push(op.clone());
            idx = *p as usize;
        }
        ops.reverse();
        ops
    }
    pub fn depth_of(&self, idx: usize) -> usize {
        self.meta[idx].2 as usize
    }
}

pub fn explore<Sy: System>(sys: &Sy, lim: &Limits, rep: &Report, name: &str) -> Explored<Sy> {
    let mut seen: HashMap<Sy::State, u32> = HashMap::new();
    let mut states: Vec<Sy::State> = vec![];
    let mut meta: Vec<(u32, Option<Sy::Op>, u32)> = vec![];
    let mut frontier: Vec<u32> = vec![];
    for s in sys.init() {
        if !seen.contains_key(&s) {
            let id = states.len() as u32;
            seen.insert(s.clone(), id);
            for (sig, what) in sys.invariant(&s) {
                rep.violation(&sig, 0, || (what.clone(), json!({"model": name, "history": [], "state": format!("{:?}", s)})));
            }
            states.push(s);
            meta.push((0, None, 0));
            frontier.push(id);
        }
    }
    let mut transitions = 0u64;
    let mut depth = 0usize;
    let mut closed = true;
    while !frontier.is_empty() {
        if depth >= lim.max_depth {
            closed = false;
            rep.bound(&format!("{}: depth bound {} reached with {} frontier states unexpanded (all histories up to that depth covered)", name, lim.max_depth, frontier.len()));
            break;
        }
        if rep.over_time() {
            closed = false;
            rep.cap(&format!("{}: wall cap reached at depth {}", name, depth));
            break;
        }
        // memory cap (resident set), checked once per level: a capped run reports what it covered, never a verdict
        // on the rest; default 28 GiB, VERIF_RSS_CAP_GB overrides
        if let Some(gb) = rss_gib() {
            let cap = std::env::var("VERIF_RSS_CAP_GB").ok().and_then(|v| v.parse::<f64>().ok()).unwrap_or(28.0);
            if gb > cap {
                closed = false;
                rep.cap(&format!("{}: memory cap ({} GiB resident) reached at depth {} (all histories up to that depth covered)", name, cap, depth));
                break;
            }
        }
        // parallel expansion
        let results: Vec<(u32, Vec<(Sy::Op, StepOut<Sy::State>)>, Acc)> = frontier
            .par_iter()
            .map(|&id| {
                let s = &states[id as usize];
                let mut acc = Acc::default();
                let mut outs = vec![];
                for op in sys.ops(s) {
                    acc.transitions += 1;
                    let o = sys.step(s, &op, &mut acc);
                    outs.push((op, o));
                }
                (id, outs, acc)
            })
            .collect();
        let mut next_frontier = vec![];
        let mut capped = false;
        for (id, outs, acc) in results {
            transitions += acc.transitions;
            rep.merge(acc);
            for (op, o) in outs {
                if !o.viols.is_empty() {
                    for (sig, what) in &o.viols {
                        rep.violation(sig, depth as u64 + 1, || {
                            let mut hist: Vec<Value> = vec![];
                            // reconstruct the path to `id`
                            let mut ops = vec![];
                            let mut i = id as usize;
                            while let (p, Some(op), _) = &meta[i] {
                                ops.push(sys.op_json(op));
                                i = *p as usize;
                            }
                            ops.reverse();
                            hist.extend(ops);
                            hist.push(sys.op_json(&op));
                            (what.clone(), json!({"model": name, "history": hist, "state_before_last_op": format!("{:?}", states[id as usize])}))
                        });
                    }
                }
                if let Some(ns) = o.next {
                    if !seen.contains_key(&ns) {
                        if states.len() >= lim.max_states {
                            capped = true;
                            continue;
                        }
                        let nid = states.len() as u32;
                        seen.insert(ns.clone(), nid);
                        for (sig, what) in sys.invariant(&ns) {
                            rep.violation(&sig, depth as u64 + 1, || (what.clone(), json!({"model": name, "state": format!("{:?}", ns)})));
                        }
                        states.push(ns);
                        meta.push((id, Some(op), depth as u32 + 1));
                        next_frontier.push(nid);
                    }
                }
            }
        }
        if capped {
            closed = false;
            rep.cap(&format!("{}: state cap {} reached at depth {}", name, lim.max_states, depth + 1));
            break;
        }
        frontier = next_frontier;
        if !frontier.is_empty() {
            depth += 1;
        }
    }
    rep.depth(depth as u64);
    let mut a = Acc::default();
    a.states = states.len() as u64;
    rep.merge(a);
    rep.part(json!({"model": name, "states": states.len(), "transitions": transitions, "max_depth": depth, "closure_reached": closed}));
    Explored { states, meta, transitions, depth, closed }
}

/// Re-execute a recorded history (list of op_json values) on a fresh system, without the
/// explorer: returns the transcript lines and the state reached. An op that is not enabled in
/// the state reached so far is a hard error (divergence while replaying a prefix).
pub fn replay_history<Sy: System>(sys: &Sy, history: &[Value]) -> Result<(Vec<String>, Sy::State), String> {
    let mut s = sys.init().into_iter().next().ok_or("no initial state")?;
    let mut lines = vec![];
    for (i, h) in history.iter().enumerate() {
        let op = sys.ops(&s).into_iter().find(|o| &sys.op_json(o) == h).ok_or_else(|| format!("step {}: op {} is not enabled in the state reached (replay diverged)", i, h))?;
        let mut acc = Acc::default();
        let out = sys.step(&s, &op, &mut acc);
        let obs: Vec<String> = acc.outcomes.keys().cloned().collect();
        lines.push(format!("#{} {} -> {}", i, h, obs.join(", ")));
        for (sig, what) in &out.viols {
            lines.push(format!("    VIOLATED [{}]: {}", sig, what));
        }
        match out.next {
            Some(n) => s = n,
            None => {
                lines.push("    (transition dropped: no successor state)".into());
                break;
            }
        }
    }
    Ok((lines, s))
}

/// resident set size of this process in GiB (None when /proc is not readable)
pub fn rss_gib() -> Option<f64> {
    let t = std::fs::read_to_string("/proc/self/statm").ok()?;
    let pages: f64 = t.split_whitespace().nth(1)?.parse().ok()?;
    Some(pages * 4096.0 / (1u64 << 30) as f64)
}
