//! Shared helpers: label alphabet, payload patterns, panic capture, constants re-stated from
//! ETSI TS 102 606-1 (deliberately NOT imported from the crate's gse_standard.rs, so that a
//! changed constant in the crate is detected instead of followed).

use dvb_gse_rust::label::Label;
use serde::{Deserialize, Serialize};
use std::cell::RefCell;
use std::panic::{catch_unwind, AssertUnwindSafe};
use std::sync::Once;

pub const GSE_LEN_MAX: usize = 4095;
pub const PKT_LEN_MAX: usize = 4097;
pub const TOTAL_LEN_MAX: usize = 65535;
pub const FIXED: usize = 2;
pub const FRAG_ID: usize = 1;
pub const TOTAL: usize = 2;
pub const PTYPE: usize = 2;
pub const CRC: usize = 4;

/// Harness-side label (hashable, serialisable).
#[derive(Clone, Copy, PartialEq, Eq, Hash, Debug, Serialize, Deserialize, PartialOrd, Ord)]
pub enum Lbl {
    Six([u8; 6]),
    Three([u8; 3]),
    Bcast,
    ReUse,
}

impl Lbl {
    pub fn to_label(self) -> Label {
        match self {
            Lbl::Six(b) => Label::SixBytesLabel(b),
            Lbl::Three(b) => Label::ThreeBytesLabel(b),
            Lbl::Bcast => Label::Broadcast,
            Lbl::ReUse => Label::ReUse,
        }
    }
    pub fn from_label(l: Label) -> Lbl {
        match l {
            Label::SixBytesLabel(b) => Lbl::Six(b),
            Label::ThreeBytesLabel(b) => Lbl::Three(b),
            Label::Broadcast => Lbl::Bcast,
            Label::ReUse => Lbl::ReUse,
        }
    }
    /// number of label bytes on the wire
    pub fn wire_len(self) -> usize {
        match self {
            Lbl::Six(_) => 6,
            Lbl::Three(_) => 3,
            _ => 0,
        }
    }
    pub fn bytes(self) -> Vec<u8> {
        match self {
            Lbl::Six(b) => b.to_vec(),
            Lbl::Three(b) => b.to_vec(),
            _ => vec![],
        }
    }
    /// 2-bit LT value of the standard
    pub fn lt(self) -> u8 {
        match self {
            Lbl::Six(_) => 0,
            Lbl::Three(_) => 1,
            Lbl::Bcast => 2,
            Lbl::ReUse => 3,
        }
    }
    pub fn is_addr(self) -> bool {
        matches!(self, Lbl::Six(_) | Lbl::Three(_))
    }
    pub fn short(self) -> String {
        match self {
            Lbl::Six(b) => format!("6B:{}", hex(&b)),
            Lbl::Three(b) => format!("3B:{}", hex(&b)),
            Lbl::Bcast => "BC".into(),
            Lbl::ReUse => "RU".into(),
        }
    }
}

pub const L6A: Lbl = Lbl::Six([0x0A, 0x1B, 0x2C, 0x3D, 0x4E, 0x5F]);
pub const L6B: Lbl = Lbl::Six([0xF1, 0xE2, 0xD3, 0xC4, 0xB5, 0xA6]);
pub const L3A: Lbl = Lbl::Three([0x31, 0x32, 0x33]);
pub const L3B: Lbl = Lbl::Three([0x0A, 0x1B, 0x2C]); // shares a prefix with L6A on purpose
/// shares its first three bytes with L6A (two addresses of one vendor): equal-prefix comparisons must not confuse them
pub const L6P: Lbl = Lbl::Six([0x0A, 0x1B, 0x2C, 0x99, 0x88, 0x77]);
pub const L6Z: Lbl = Lbl::Six([0; 6]);
/// the all-zero 3-byte label is a VALID label (only the 6-byte zero label is reserved)
pub const L3Z: Lbl = Lbl::Three([0; 3]);

pub fn hex(b: &[u8]) -> String {
    let mut s = String::with_capacity(b.len() * 2);
    for x in b {
        s.push_str(&format!("{:02x}", x));
    }
    s
}

pub fn unhex(s: &str) -> Vec<u8> {
    (0..s.len() / 2)
        .map(|i| u8::from_str_radix(&s[2 * i..2 * i + 2], 16).unwrap())
        .collect()
}

/// short printable form of a byte string (full when small)
pub fn hexs(b: &[u8]) -> String {
    if b.len() <= 48 {
        hex(b)
    } else {
        format!("{}..({} bytes)..{}", hex(&b[..16]), b.len(), hex(&b[b.len() - 8..]))
    }
}

/// Payload patterns. 0: position tag (never 0x00 at offset 0, period 251 so that an
/// off-by-one or a shifted slice is visible), 1: all 0x00, 2: all 0xFF, 3: another tag
/// (distinguishes two PDUs of the same length).
pub fn pdu(len: usize, pattern: u8) -> Vec<u8> {
    match pattern {
        0 => (0..len).map(|i| (((i * 7 + 1) % 251) as u8) ^ (((i / 251) % 256) as u8).wrapping_mul(29)).collect(),
        1 => vec![0u8; len],
        2 => vec![0xFFu8; len],
        _ => (0..len).map(|i| ((i * 13 + 101) % 241) as u8 ^ 0x80).collect(),
    }
}

thread_local! {
    static LAST_PANIC: RefCell<Option<String>> = const { RefCell::new(None) };
    static IN_CATCH: std::cell::Cell<bool> = const { std::cell::Cell::new(false) };
}
static HOOK: Once = Once::new();

pub fn install_panic_hook() {
    HOOK.call_once(|| {
        std::panic::set_hook(Box::new(|info| {
            let loc = info
                .location()
                .map(|l| {
                    let f = l.file();
                    // keep the path relative to the crate root so signatures are stable
                    let f = f.rsplit_once("/src/").map(|x| x.1).unwrap_or(f);
                    format!("{}:{}", f, l.line())
                })
                .unwrap_or_else(|| "?".into());
            let msg = if let Some(s) = info.payload().downcast_ref::<&str>() {
                s.to_string()
            } else if let Some(s) = info.payload().downcast_ref::<String>() {
                s.clone()
            } else {
                "?".into()
            };
            if !IN_CATCH.with(|c| c.get()) {
                eprintln!("MACHINERY-PANIC (outside the subject under test): {} ({})", loc, msg);
            }
            LAST_PANIC.with(|p| *p.borrow_mut() = Some(format!("{} ({})", loc, msg)));
        }));
    });
}

/// A caught panic: "file:line (message)".
#[derive(Clone, Debug, PartialEq, Eq, Hash)]
pub struct Panicked(pub String);

impl Panicked {
    /// file:line only (used in signatures)
    pub fn loc(&self) -> String {
        self.0.split(' ').next().unwrap_or("?").to_string()
    }
    /// file only + kind of panic (line numbers move when the code is edited; signatures
    /// use the coarse form)
    pub fn coarse(&self) -> String {
        let file = self.0.split(':').next().unwrap_or("?");
        let kind = if self.0.contains("overflow") {
            "arith-overflow"
        } else if self.0.contains("out of range") || self.0.contains("index out of bounds") || self.0.contains("slice index") {
            "slice-bounds"
        } else if self.0.contains("unwrap") {
            "unwrap"
        } else if self.0.contains("not yet implemented") || self.0.contains("unreachable") {
            "todo-unreachable"
        } else if self.0.contains("copy_from_slice") || self.0.contains("length mismatch") {
            "copy-len"
        } else {
            "other"
        };
        format!("{}:{}", file, kind)
    }
}

pub fn catch<T>(f: impl FnOnce() -> T) -> Result<T, Panicked> {
    LAST_PANIC.with(|p| *p.borrow_mut() = None);
    let prev = IN_CATCH.with(|c| c.replace(true));
    let r = catch_unwind(AssertUnwindSafe(f));
    IN_CATCH.with(|c| c.set(prev));
    match r {
        Ok(v) => Ok(v),
        Err(_) => {
            let s = LAST_PANIC.with(|p| p.borrow_mut().take()).unwrap_or_else(|| "? (?)".into());
            Err(Panicked(s))
        }
    }
}

/// dedup + sort helper for size sets
pub fn uniq(mut v: Vec<usize>) -> Vec<usize> {
    v.sort_unstable();
    v.dedup();
    v
}

pub fn range(a: usize, b: usize) -> Vec<usize> {
    (a..=b).collect()
}

/// label VALUES that sit next to a reserved value or at the edge of the byte range (value-specific slips)
pub fn special_labels() -> Vec<Lbl> {
    vec![
        L3Z,
        Lbl::Three([0, 0, 1]),
        Lbl::Three([0xFF; 3]),
        Lbl::Six([0, 0, 0, 0, 0, 1]),
        Lbl::Six([1, 0, 0, 0, 0, 0]),
        Lbl::Six([0xFF; 6]),
        Lbl::Six([0, 0, 0, 0x31, 0x32, 0x33]),
    ]
}
