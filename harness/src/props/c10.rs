//! C10 — back-to-back packets and padding in a frame are walked by consumed lengths.
//! Decided compositionally: (1) one-step independence lemma in every reachable receiver state
//! (decap(q || tail) == decap(q) in outcome, consumed length |q| and successor state), (2) padding
//! in every state, (3) end-to-end walks over complete frames, (4) no emitted packet reads as
//! padding. By induction on the position in the frame (1) gives the property for frames of any
//! length over the alphabet.

use crate::common::*;
use crate::explore::*;
use crate::refm;
use crate::report::{Acc, Report, Tier};
use crate::rx::*;
use crate::rxalpha::*;
use crate::rxmodel;
use crate::tx::*;
use dvb_gse_rust::crc::DefaultCrc;
use dvb_gse_rust::gse_encap::Encapsulator;
use rayon::prelude::*;
use serde_json::json;

/// packets of the alphabet the lemma applies to: valid ones and those rejected for one of the
/// reasons the statement lists (bad CRC, unknown fragment id, lack of storage, unknown mandatory
/// extension, unresolvable re-use label, oversize). Malformed packets (inconsistent GSE length,
/// zero label, truncated, extension chain running past the end of the packet) are frame-level
/// errors and excluded.
fn lemma_packet(name: &str) -> bool {
    !(name.contains("bad-gse-len") || name.contains("zero-label") || name == "inter-empty" || name == "one-byte" || name == "truncated" || name.contains("past-end") || name.starts_with("padding") || name.contains("bad-total") && name.starts_with("first"))
}

fn tails(alpha: &[Pkt]) -> Vec<(String, Vec<u8>)> {
    let mut v: Vec<(String, Vec<u8>)> = vec![];
    for n in 1..=4usize {
        v.push((format!("{}-zero-bytes", n), vec![0u8; n]));
    }
    for p in alpha {
        v.push((format!("pkt:{}", p.name), p.bytes.clone()));
    }
    v.push(("ff*8".into(), vec![0xFF; 8]));
    v.push(("ext-like".into(), vec![0x01, 0x01, 0x02, 0x02, 0xAA, 0xBB, 0x00, 0x81, 0x03, 0x03]));
    v.push(("zero-label".into(), vec![0x08, 0x00, 0, 0, 0, 0, 0, 0, 0x11]));
    v.push(("one-byte".into(), vec![0xC0]));
    v
}

pub fn run(tier: Tier) -> i32 {
    let rep = Report::new("C10", tier);
    rep.set_rule("(1) lemma: for every receiver state of the C08 closure (1 slot: closure; 2 slots: depth 7, thorough closure) x every lemma packet of the 46-packet alphabet (valid packets and those rejected for bad CRC / unknown id / no storage / unknown mandatory extension / unresolvable re-use / oversize) x every tail (1..4 zero bytes, every alphabet packet, FF*8, extension-like bytes, zero label, one byte): decap(q||t) equals decap(q) in outcome, consumed length = |q| and successor snapshot; (2) 2..=6 zero bytes give Padding consuming all in every state; (3) all frames of <= 3 (thorough 4) packets drawn from two real fragment trains continuing across frames plus complete packets and rejected packets, followed by 0..=5 zero bytes, are walked by consumed lengths and compared with stand-alone decapsulation; (4) every packet of the corpus is checked not to read as padding; (5) frames of 4097..70000 bytes, and every frame size 24..=64 with short PDUs, filled greedily by the real encapsulator (encap, and encap_ext for every second PDU; consecutive PDUs share their label, so re-use labels occur) with PDUs around and above the 4095-byte limit (fragments continuing across frames), walked by consumed lengths against a twin receiver fed each packet alone, every PDU delivered once in order; (6) every continuation packet the sender emits for PDUs of 0..=24 (thorough 48) bytes at every position and room, in a frame with 0/2/3/6 zero bytes behind it, on a receiver holding the reassembly the position implies; (7) every start/complete packet the sender emits for short PDUs over 17 boundary values of the protocol type field x labels, in a frame with zero bytes behind it. distinct = (packet, outcome)");
    rep.assume("frames longer than 4 packets follow from the lemma by induction on the position (the successor state after each packet is a state of the closure, where the lemma was checked)");
    let mgr = mgr_std();
    for slots in [1usize, 2] {
        let buffers: Vec<usize> = (0..slots + 3).map(|i| 4 + i).collect();
        let sys = rxmodel::Sys::new(slots, 4, buffers, false);
        let quiet = Report::new("C10-states", tier);
        let (max_states, max_depth) = if tier.thorough() { (4_000_000, 64) } else if slots == 1 { (400_000, 64) } else { (250_000, 7) };
        let ex = explore(&sys, &Limits { max_states, max_depth }, &quiet, "r");
        rep.part(json!({"model": format!("receiver-{}-slots", slots), "states": ex.states.len(), "closure_reached": ex.closed, "max_depth": ex.depth}));
        if !ex.closed {
            rep.bound(&format!("receiver-{}-slots: depth bound {} (all histories up to that depth covered)", slots, ex.depth));
        }
        rep.depth(ex.depth as u64);
        let alpha = &sys.alphabet;
        let tl = tails(alpha);
        let stride = if tier.thorough() && slots == 2 { 4 } else { 1 };
        let idx: Vec<usize> = (0..ex.states.len()).step_by(stride).collect();
        idx.par_chunks(32).for_each(|chunk| {
            if rep.over_time() {
                rep.cap("lemma: wall cap");
                return;
            }
            let mut acc = Acc::default();
            for &i in chunk {
                let st = &ex.states[i];
                acc.states += 1;
                let hist = || ex.path(i).iter().map(|o| sys.op_json(o)).collect::<Vec<_>>();
                for q in alpha.iter().filter(|p| lemma_packet(&p.name)) {
                    let (o0, s0) = step_decap(&st.rx, &DefaultCrc {}, &mgr, &q.bytes);
                    acc.transitions += 1;
                    acc.calls += 1;
                    acc.outcome(&format!("{}:{}", q.name, o0.class()));
                    if matches!(o0, DecapOut::Panic(_)) {
                        continue; // C05
                    }
                    if o0.consumed() != Some(q.bytes.len()) {
                        rep.violation(&format!("C10|consumed!=own-length|{}|{}", q.name.split('-').next().unwrap(), o0.class()), ex.depth_of(i) as u64, || (format!("decap({}) alone -> {}: consumed length differs from the packet length {}", q.name, o0.brief(), q.bytes.len()), json!({"model": format!("receiver-{}-slots", slots), "slots": slots, "history": hist(), "state": format!("{:?}", st.rx), "packet": hex(&q.bytes)})));
                    }
                    for (tn, t) in &tl {
                        let mut input = q.bytes.clone();
                        input.extend_from_slice(t);
                        let (o1, s1) = step_decap(&st.rx, &DefaultCrc {}, &mgr, &input);
                        acc.transitions += 1;
                        acc.calls += 1;
                        acc.compared += 1;
                        if o1 != o0 || s1 != s0 {
                            let tk = if tn.starts_with("pkt:") { "packet" } else { tn.as_str() };
                            let what = if o1 != o0 { "outcome" } else { "successor-state" };
                            rep.violation(&format!("C10|depends-on-following-bytes|{}|{}|{}|{}", what, q.name.split('-').next().unwrap(), o0.class(), tk), ex.depth_of(i) as u64, || (format!("decap({}) alone -> {}; followed by {} -> {}", q.name, o0.brief(), tn, o1.brief()), json!({"model": format!("receiver-{}-slots", slots), "slots": slots, "history": hist(), "state": format!("{:?}", st.rx), "packet": hex(&q.bytes), "tail": hex(t)})));
                        }
                    }
                }
                // padding
                for n in 2..=6usize {
                    let (o, _) = step_decap(&st.rx, &DefaultCrc {}, &mgr, &vec![0u8; n]);
                    acc.transitions += 1;
                    acc.compared += 1;
                    if o != (DecapOut::Padding { consumed: n }) {
                        rep.violation(&format!("C10|padding|{}", o.class()), ex.depth_of(i) as u64, || (format!("decap of {} zero bytes -> {}", n, o.brief()), json!({"model": format!("receiver-{}-slots", slots), "slots": slots, "history": hist()})));
                    }
                }
            }
            rep.merge(acc);
        });
        let k = ex.states.len() - 1;
        rep.sample(slots as u64, || json!({"slots": slots, "state_history": ex.path(k).iter().map(|o| sys.op_json(o)).collect::<Vec<_>>(), "lemma_packets": alpha.iter().filter(|p| lemma_packet(&p.name)).count(), "tails": tl.len()}));
    }
    end_to_end(&rep, tier);
    large_frames(&rep, tier);
    continuation_packets(&rep, tier);
    start_packets(&rep);
    rep.finish(true)
}

/// (7) every start/complete packet the sender emits for short PDUs over the boundary values of the protocol type field
/// (around 0x0100, 0x0500, 0x0600, the top) and all label kinds, laid in a frame with zero bytes behind it: whatever the
/// receiver answers, it answers the same in the frame as alone, consumes the packet's own length unless it reports a
/// frame-level error alone as well, and the zeros read as padding.
fn start_packets(rep: &Report) {
    let mgr = mgr_std();
    let pts: Vec<u16> = vec![0x0000, 0x0081, 0x00FF, 0x0100, 0x0101, 0x02FF, 0x0400, 0x04FF, 0x0500, 0x0501, 0x05FE, 0x05FF, 0x0600, 0x0601, 0x0800, 0xFFFE, 0xFFFF];
    pts.par_iter().for_each(|&pt| {
        let mut acc = Acc::default();
        for l in [L6A, L3A, Lbl::Bcast] {
            for p in [0usize, 1, 5, 9, 10, 11, 20] {
                let pd = pdu(p, 1);
                for b in [13usize, 16, 4 + l.wire_len() + p, 64] {
                    let mut enc = Encapsulator::new(DefaultCrc {});
                    let mut buf = vec![0u8; b];
                    let out = do_encap(&mut enc, &pd, 3, pt, l, &mut buf);
                    acc.states += 1;
                    acc.calls += 1;
                    let Some(n) = out.len() else { continue };
                    let pkt = buf[..n.min(b)].to_vec();
                    if pkt.len() < 2 {
                        continue;
                    }
                    let rx0 = RxS::new(2, 32, &[32, 32]);
                    let (alone, _) = step_decap(&rx0, &DefaultCrc {}, &mgr, &pkt);
                    for k in [2usize, 3, 7] {
                        let mut frame = pkt.clone();
                        frame.extend(std::iter::repeat(0u8).take(k));
                        let mut d = rx0.build(DefaultCrc {}, mgr.clone());
                        let inframe = do_decap(&mut d, &frame);
                        acc.transitions += 2;
                        acc.compared += 1;
                        let mut bad: Option<String> = None;
                        if inframe != alone {
                            bad = Some(format!("alone -> {}, followed by {} zero bytes -> {}", alone.brief(), k, inframe.brief()));
                        } else if inframe.consumed() == Some(pkt.len()) {
                            let pad = do_decap(&mut d, &frame[pkt.len()..]);
                            if pad != (DecapOut::Padding { consumed: k }) {
                                bad = Some(format!("the {} zero bytes behind it -> {}", k, pad.brief()));
                            }
                        }
                        if let Some(why) = bad {
                            rep.violation(&format!("C10|start-packet|{}|{}", if pt < 0x0100 { "pt<0x100" } else if pt < 0x0600 { "pt-0x100..0x5ff" } else { "pt>=0x600" }, alone.class()), pt as u64, || (format!("encap(pdu_len={}, pt={:#06x}, label={}, buffer={}) -> {:?}, packet {}: {}", p, pt, l.short(), b, out, hex(&pkt), why), json!({"packet": hex(&pkt), "tail": hex(&vec![0u8; k]), "receiver": {"slots": 2, "storage": 32, "buffers": 2}, "call": format!("encap(pdu_len={}, pt={:#06x}, label={}, buffer={})", p, pt, l.short(), b)})));
                            break;
                        }
                    }
                }
            }
        }
        rep.merge(acc);
    });
    rep.part(json!({"part": "start/complete packets over protocol-type boundaries in frames", "protocol_types": pts.iter().map(|p| format!("{:#06x}", p)).collect::<Vec<_>>(), "pdu_lengths": [0, 1, 5, 9, 10, 11, 20]}));
}

/// (6) every continuation packet the sender can emit for a small PDU (every PDU length, every context position, every
/// amount of room left in a frame), laid in a frame followed by 0, 2, 3 or 6 zero bytes, on a receiver holding exactly the
/// reassembly the position implies: same outcome in the frame as alone, own length consumed, the zeros read as padding.
fn continuation_packets(rep: &Report, tier: Tier) {
    use crate::refm::crc_ref;
    let mgr = mgr_std();
    let maxp = if tier.thorough() { 48usize } else { 24 };
    (0..=maxp).collect::<Vec<usize>>().par_iter().for_each(|&p| {
        if rep.over_time() {
            rep.cap("continuation packets: wall cap");
            return;
        }
        let mut acc = Acc::default();
        let pd = pdu(p, (p % 4) as u8);
        let (l, pt, fid) = (L3A, 0x0800u16, 5u8);
        let total = (p + 2 + l.wire_len()) as u16;
        let crc = crc_ref(total, pt, &l.bytes(), &pd);
        let enc = Encapsulator::new(DefaultCrc {});
        for pos in 0..=p {
            let mut rxs = RxS::new(2, p.max(1) + 8, &[p.max(1) + 8]);
            let mut stor = vec![0u8; p.max(1) + 8];
            stor[..pos].copy_from_slice(&pd[..pos]);
            rxs.mem.set_ctx(CtxS { label: l, pt, frag_id: fid, total_len: total, pdu_len: pos as u16, from_reuse: false, exts: vec![] }, stor);
            for b in 0..=p + 12 {
                let mut buf = vec![0u8; b];
                let out = do_encap_frag(&enc, &pd, Ctx { id: fid, crc, pos: pos as u16 }, &mut buf);
                acc.states += 1;
                acc.calls += 1;
                let Some(n) = out.len() else { continue };
                let pkt = buf[..n.min(b)].to_vec();
                if pkt.len() < 2 {
                    continue;
                }
                let (alone, _) = step_decap(&rxs, &DefaultCrc {}, &mgr, &pkt);
                for k in [0usize, 2, 3, 6] {
                    let mut frame = pkt.clone();
                    frame.extend(std::iter::repeat(0u8).take(k));
                    let mut d = rxs.build(DefaultCrc {}, mgr.clone());
                    let inframe = do_decap(&mut d, &frame);
                    acc.transitions += 2;
                    acc.compared += 1;
                    let mut bad: Option<String> = None;
                    if inframe != alone {
                        bad = Some(format!("alone -> {}, followed by {} zero bytes -> {}", alone.brief(), k, inframe.brief()));
                    } else if inframe.consumed() != Some(pkt.len()) {
                        bad = Some(format!("{} consumes {:?} instead of its own {} bytes", inframe.brief(), inframe.consumed(), pkt.len()));
                    } else if k >= 2 {
                        let pad = do_decap(&mut d, &frame[pkt.len()..]);
                        if pad != (DecapOut::Padding { consumed: k }) {
                            bad = Some(format!("the {} zero bytes behind it -> {}", k, pad.brief()));
                        }
                    }
                    if let Some(why) = bad {
                        rep.violation(&format!("C10|continuation-packet|{}|{}", out.class(), alone.class()), (p * 1000 + b) as u64, || (format!("encap_frag(pdu_len={}, pos={}, buffer={}) -> {:?}, packet {}: {}", p, pos, b, out, hex(&pkt), why), json!({"packet": hex(&pkt), "tail": hex(&vec![0u8; k]), "receiver": {"slots": 2, "storage": p.max(1) + 8, "buffers": 1, "contexts": [{"label": l.short(), "pt": pt, "frag_id": fid, "total_len": total, "pdu_len": pos}]}, "call": format!("encap_frag(pdu_len={}, pos={}, buffer={})", p, pos, b)})));
                        break;
                    }
                }
            }
        }
        rep.merge(acc);
    });
    rep.part(json!({"part": "continuation packets in frames", "pdu_lengths": format!("0..={}", maxp), "positions": "all", "buffers": "0..=p+12", "zero_bytes_behind": [0, 2, 3, 6]}));
}

/// (5) frames of BBFrame size and beyond, filled greedily by the real encapsulator with PDUs around and above the
/// 4095-byte GSE length limit (fragments continuing across frames), walked by consumed lengths on one receiver and
/// compared packet by packet with a twin receiver that gets each packet alone; every PDU must come out once, in order.
fn large_frames(rep: &Report, tier: Tier) {
    let mgr = mgr_std();
    let pdu_sets: Vec<Vec<usize>> = if tier.thorough() {
        vec![vec![300, 13000, 100, 40], vec![4090, 4094, 4095, 4096], vec![8200, 1, 4093, 9000], vec![4087, 4088, 4089, 4091, 4092], vec![65000, 5], vec![12285, 12286, 12287], vec![8189, 8190, 8191, 8192], vec![65530, 100, 40], vec![65528, 65533, 7]]
    } else {
        // the last set sits at the 16-bit total length: 65530 bytes fit with a broadcast label and must be refused with a
        // 6-byte one (the sender then drops that PDU)
        vec![vec![300, 13000, 100, 40], vec![4090, 4094, 4095, 4096], vec![8200, 1, 4093, 9000], vec![8189, 8190, 8191, 8192], vec![65530, 100, 40]]
    };
    let frame_sizes: Vec<usize> = if tier.thorough() { vec![4097, 4098, 4099, 4100, 4200, 5000, 8100, 8192, 16384, 70000] } else { vec![4097, 4098, 4100, 8100, 70000] };
    let mut jobs: Vec<(usize, usize, Lbl, u8)> = (0..pdu_sets.len()).flat_map(|i| frame_sizes.iter().map(move |&f| (i, f))).flat_map(|(i, f)| [L6A, Lbl::Bcast].into_iter().map(move |l| (i, f, l, 0u8))).collect();
    // small frames: every frame size 24..=64 with short PDUs, so that every way a frame can end (room for a whole packet,
    // for a payload but not its CRC, for 1..6 leftover bytes while only a CRC is pending ...) occurs
    let mut pdu_sets = pdu_sets;
    let small_from = pdu_sets.len();
    pdu_sets.push(vec![30, 12, 7, 25, 3]);
    pdu_sets.push(vec![41, 5, 19]);
    pdu_sets.push(vec![17, 17, 17, 2]);
    for i in small_from..pdu_sets.len() {
        for f in 24..=64usize {
            for l in [L6A, Lbl::Bcast] {
                // policy 1: a frame starts with the next short PDU (as a complete packet) BEFORE the pending fragmented PDU is
                // continued, so the continuation is offered whatever is left of the frame
                jobs.push((i, f, l, 0));
                jobs.push((i, f, l, 1));
            }
        }
    }
    jobs.par_iter().for_each(|&(si, fsize, l, policy)| {
        if rep.over_time() {
            rep.cap("large frames: wall cap");
            return;
        }
        let mut acc = Acc::default();
        let pdus: Vec<Vec<u8>> = pdu_sets[si].iter().enumerate().map(|(k, &n)| pdu(n, (k % 4) as u8)).collect();
        let mut enc = Encapsulator::new(DefaultCrc {});
        let st = if fsize <= 64 { 64usize } else { 70000usize };
        let mut walker = RxS::new(4, st, &[st, st, st]).build(DefaultCrc {}, mgr.clone());
        let mut twin = RxS::new(4, st, &[st, st, st]).build(DefaultCrc {}, mgr.clone());
        let mut delivered: Vec<Vec<u8>> = vec![];
        let mut dropped: Vec<usize> = vec![];
        let mut cur: Option<(usize, Ctx)> = None; // PDU being continued
        let mut next_pdu = 0usize;
        let mut bad: Option<String> = None;
        let mut frames = 0usize;
        let wit = |frames: usize| json!({"pdu_lengths": pdu_sets[si], "frame_size": fsize, "label": l.short(), "policy": if policy == 1 { "short PDUs first, then the pending continuation" } else { "pending continuation first" }, "frames_built": frames});
        'outer: while (cur.is_some() || next_pdu < pdus.len()) && frames < 200 {
            // build one frame
            let mut frame = vec![0u8; fsize];
            let mut lens: Vec<usize> = vec![];
            let mut off = 0usize;
            loop {
                let room = &mut frame[off..];
                if room.len() < 2 {
                    break;
                }
                let new_first = policy == 1 && cur.is_some() && lens.is_empty() && next_pdu < pdus.len() && pdus[next_pdu].len() <= 12 && 4 + l.wire_len() + pdus[next_pdu].len() <= room.len();
                if new_first {
                    if let EncOut::Completed(n) = do_encap(&mut enc, &pdus[next_pdu], 0, 0x0800, l, room) {
                        acc.calls += 1;
                        next_pdu += 1;
                        lens.push(n);
                        off += n;
                        continue;
                    }
                }
                let out = match cur {
                    Some((pi, ctx)) => do_encap_frag(&enc, &pdus[pi], ctx, room),
                    // every second PDU goes through encap_ext with one optional extension
                    None if next_pdu < pdus.len() && next_pdu % 2 == 1 => do_encap_ext(&mut enc, &pdus[next_pdu], (next_pdu % 4) as u8, 0x0800, l, room, &[(0x0202, vec![0xE1, 0xE2])]),
                    None if next_pdu < pdus.len() => do_encap(&mut enc, &pdus[next_pdu], (next_pdu % 4) as u8, 0x0800, l, room),
                    None => break,
                };
                acc.calls += 1;
                match out {
                    EncOut::Completed(n) => {
                        if cur.is_none() {
                            next_pdu += 1;
                        }
                        cur = None;
                        lens.push(n);
                        off += n;
                    }
                    EncOut::Fragmented(n, ctx) => {
                        let pi = match cur {
                            Some((pi, _)) => pi,
                            None => {
                                next_pdu += 1;
                                next_pdu - 1
                            }
                        };
                        cur = Some((pi, ctx));
                        lens.push(n);
                        off += n;
                    }
                    // a fresh PDU refused in an EMPTY frame cannot be sent at all (it exceeds the 16-bit total length for its
                    // label): the sender drops it
                    EncOut::Err(_) if cur.is_none() && off == 0 => {
                        dropped.push(next_pdu);
                        next_pdu += 1;
                        continue;
                    }
                    EncOut::Err(_) => break, // no room left in this frame
                    EncOut::Panic(p) => {
                        bad = Some(format!("the encapsulator panics at {}", p));
                        break 'outer;
                    }
                }
                if off > fsize {
                    bad = Some(format!("the encapsulator reports {} bytes written into the {} bytes left of the frame", lens.last().unwrap(), fsize + lens.last().unwrap() - off));
                    break 'outer;
                }
            }
            frames += 1;
            if lens.is_empty() {
                if cur.is_none() && next_pdu >= pdus.len() {
                    break; // the remaining PDUs were all dropped
                }
                bad = Some("the encapsulator accepts no packet in an empty frame".into());
                break;
            }
            // the rest of the frame is zero padding already; walk it
            enc.reset_last_label();
            let mut o = 0usize;
            for (k, &n) in lens.iter().enumerate() {
                if refm::header_fields(u16::from_be_bytes([frame[o], frame[o + 1]])).is_none() {
                    bad = Some(format!("frame {} packet #{} at offset {} reads as padding", frames, k, o));
                    break 'outer;
                }
                let alone = do_decap(&mut twin, &frame[o..o + n]);
                let inframe = do_decap(&mut walker, &frame[o..]);
                acc.transitions += 2;
                acc.calls += 2;
                acc.compared += 1;
                if alone != inframe {
                    bad = Some(format!("frame {} packet #{} ({} bytes at offset {}): alone -> {}, in the frame -> {}", frames, k, n, o, alone.brief().chars().take(160).collect::<String>(), inframe.brief().chars().take(160).collect::<String>()));
                    break 'outer;
                }
                match &inframe {
                    DecapOut::Completed { buf, meta, consumed } if *consumed == n => {
                        delivered.push(buf[..meta.pdu_len.min(buf.len())].to_vec());
                        for dd in [&mut twin, &mut walker] {
                            let _ = dd.provision_storage(vec![0u8; st].into_boxed_slice());
                        }
                    }
                    DecapOut::Fragmented { consumed, .. } if *consumed == n => {}
                    other => {
                        bad = Some(format!("frame {} packet #{} ({} bytes): {}", frames, k, n, other.brief().chars().take(200).collect::<String>()));
                        break 'outer;
                    }
                }
                o += n;
            }
            if fsize - o >= 2 {
                let p = do_decap(&mut walker, &frame[o..]);
                let _ = do_decap(&mut twin, &frame[o..]);
                if p != (DecapOut::Padding { consumed: fsize - o }) {
                    bad = Some(format!("frame {}: the {} trailing zero bytes -> {}", frames, fsize - o, p.brief()));
                    break;
                }
            }
            walker.reset_last_label();
            twin.reset_last_label();
        }
        acc.states += frames as u64;
        let expected: Vec<Vec<u8>> = pdus.iter().enumerate().filter(|(k, pd)| !dropped.contains(k) || pd.len() + 2 + l.wire_len() <= 65535).map(|(_, pd)| pd.clone()).collect();
        if bad.is_none() {
            for &k in &dropped {
                if pdus[k].len() + 2 + l.wire_len() <= 65535 {
                    bad = Some(format!("the encapsulator refuses a PDU of {} bytes in an empty frame of {} bytes although it fits the 16-bit total length with this label", pdus[k].len(), fsize));
                }
            }
        }
        let (mut dsorted, mut esorted) = (delivered.clone(), expected.clone());
        if policy == 1 {
            // with interleaving the delivery order is the order of completion, not of first emission
            dsorted.sort();
            esorted.sort();
        }
        if bad.is_none() && dsorted != esorted {
            bad = Some(format!("{} PDUs delivered, {} sent, or contents/order differ", delivered.len(), pdus.len()));
        }
        if let Some(b) = bad {
            rep.violation(&format!("C10|large-frames|{}", if fsize > 4097 { "frame>4097" } else if fsize == 4097 { "frame=4097" } else { "small-frame" }), (si * 100000 + fsize) as u64, || (format!("PDUs of {:?} bytes packed into frames of {} bytes (label {}): {}", pdu_sets[si], fsize, l.short(), b), wit(frames)));
        }
        acc.outcome(&format!("large-frames:{}", if fsize > 4097 { ">4097" } else { "4097" }));
        rep.merge(acc);
    });
    rep.part(json!({"part": "large frames", "pdu_sets": pdu_sets, "frame_sizes": frame_sizes, "labels": 2}));
}

/// (3) + (4): frames from the real encapsulator
fn end_to_end(rep: &Report, tier: Tier) {
    let mgr = mgr_std();
    // two PDUs fragmented into 3 packets each (ids 0 and 1), complete packets, rejected packets
    let mut enc = Encapsulator::new(DefaultCrc {});
    let mk_train = |enc: &mut Encapsulator<DefaultCrc>, pd: &[u8], fid: u8, l: Lbl| -> Vec<Vec<u8>> {
        // Which small buffers a sender accepts is its own choice (only >= 13 bytes for a first call and >= 7 bytes for a
        // continuation are promised): the smallest accepted buffer that still forces fragmentation is used, and if the
        // sender does not produce a 3-packet train at all the same train is printed by the reference sender.
        let mut out = vec![];
        let mut first: Option<(usize, Ctx, Vec<u8>)> = None;
        for fb in [7 + l.wire_len() + 1, 13, 14, 15] {
            let mut b = vec![0u8; fb];
            let mut e2 = enc.clone();
            if let EncOut::Fragmented(n, ctx) = do_encap(&mut e2, pd, fid, 0x0800, l, &mut b) {
                if (ctx.pos as usize) + 2 <= pd.len() {
                    *enc = e2;
                    first = Some((n, ctx, b));
                    break;
                }
            }
        }
        if let Some((n, mut ctx, b)) = first {
            out.push(b[..(n).min(b.len())].to_vec());
            loop {
                let rem = pd.len() - ctx.pos as usize;
                let mut done = false;
                let mut progressed = false;
                for bl in if out.len() == 1 { vec![3 + rem / 2, 7, 8] } else { vec![64] } {
                    let mut bb = vec![0u8; bl];
                    match do_encap_frag(enc, pd, ctx, &mut bb) {
                        EncOut::Fragmented(n2, c2) => {
                            out.push(bb[..(n2).min(bb.len())].to_vec());
                            ctx = c2;
                            progressed = true;
                        }
                        EncOut::Completed(n2) => {
                            out.push(bb[..(n2).min(bb.len())].to_vec());
                            done = true;
                            progressed = true;
                        }
                        _ => continue,
                    }
                    break;
                }
                if done || !progressed {
                    break;
                }
            }
        }
        let complete_train = out.len() >= 2 && refm::header_fields(u16::from_be_bytes([out[out.len() - 1][0], out[out.len() - 1][1]])).map(|h| h.0) == Some(refm::Kind::End);
        if !complete_train {
            let cut = (pd.len() / 3).max(1);
            out = refm::ref_train(l, 0x0800, fid, pd, &[cut, cut]);
        }
        out
    };
    let ta = mk_train(&mut enc, &[0xA1, 0xA2, 0xA3, 0xA4, 0xA5, 0xA6], 0, L6A);
    let tb = mk_train(&mut enc, &[0xB1, 0xB2, 0xB3, 0xB4, 0xB5, 0xB6], 1, L3A);
    let mut singles: Vec<(String, Vec<u8>)> = vec![];
    let mut b = vec![0u8; 64];
    let n = do_encap(&mut enc, &[0xC1, 0xC2], 0, 0x0800, Lbl::Bcast, &mut b).len().unwrap();
    singles.push(("complete-bcast".into(), b[..(n).min(b.len())].to_vec()));
    let n = do_encap(&mut enc, &[0xC3], 0, 0x86DD, L6B, &mut b).len().unwrap();
    singles.push(("complete-6B".into(), b[..(n).min(b.len())].to_vec()));
    let n = do_encap(&mut enc, &[0xC4], 0, 0x86DD, L6B, &mut b).len().unwrap();
    singles.push(("complete-6B-reuse".into(), b[..(n).min(b.len())].to_vec()));
    let n = do_encap_ext(&mut enc, &[0xC5], 0, 0x0800, L3B, &mut b, &[(0x0033, vec![0x01])]).len().unwrap();
    singles.push(("complete-unknown-mandatory".into(), b[..(n).min(b.len())].to_vec()));
    let n = do_encap(&mut enc, &[0xC6; 9], 0, 0x0800, Lbl::Bcast, &mut b).len().unwrap();
    singles.push(("complete-oversize".into(), b[..(n).min(b.len())].to_vec()));
    let mut badcrc = ta.last().unwrap().clone();
    let k = badcrc.len() - 1;
    badcrc[k] ^= 0x55;
    singles.push(("end-id0-bad-crc".into(), badcrc));
    singles.push(("inter-unknown-id".into(), refm::Desc::inter(77, &[0xEE]).print()));
    // (4) none reads as padding
    let mut acc = Acc::default();
    for p in ta.iter().chain(tb.iter()).chain(singles.iter().map(|s| &s.1)) {
        acc.states += 1;
        acc.compared += 1;
        if refm::header_fields(u16::from_be_bytes([p[0], p[1]])).is_none() {
            rep.violation("C10|emitted-packet-reads-as-padding", 0, || (format!("packet {} reads as padding", hex(p)), json!({"packet": hex(p)})));
        }
    }
    rep.merge(acc);
    // alphabet of "next packet" choices: advance train A, advance train B, each single
    #[derive(Clone, Copy, Debug, PartialEq)]
    enum Pick {
        A,
        B,
        S(usize),
    }
    let picks: Vec<Pick> = [Pick::A, Pick::B].into_iter().chain((0..singles.len()).map(Pick::S)).collect();
    let maxlen = if tier.thorough() { 4 } else { 3 };
    // enumerate (prefix frame, frame) pairs: a prefix of 0..=2 train packets already consumed in an earlier frame
    let mut seqs: Vec<Vec<Pick>> = vec![vec![]];
    let mut all: Vec<Vec<Pick>> = vec![];
    for _ in 0..maxlen {
        let mut next = vec![];
        for s in &seqs {
            for &p in &picks {
                let mut n = s.clone();
                n.push(p);
                next.push(n);
            }
        }
        all.extend(next.iter().cloned());
        seqs = next;
    }
    let jobs: Vec<(usize, usize, &Vec<Pick>)> = (0..=2usize).flat_map(|pa| (0..=1usize).map(move |pb| (pa, pb))).flat_map(|(pa, pb)| all.iter().map(move |s| (pa, pb, s))).collect();
    jobs.par_chunks(64).for_each(|chunk| {
        if rep.over_time() {
            rep.cap("end-to-end: wall cap");
            return;
        }
        let mut acc = Acc::default();
        for &(pa, pb, seq) in chunk {
            // earlier frame: pa packets of train A and pb of train B already received
            let mut d = RxS::new(2, 8, &[8, 8, 8, 8]).build(DefaultCrc {}, mgr.clone());
            let (mut ia, mut ib) = (0usize, 0usize);
            for _ in 0..pa.min(ta.len() - 1) {
                let _ = do_decap(&mut d, &ta[ia]);
                ia += 1;
            }
            for _ in 0..pb.min(tb.len() - 1) {
                let _ = do_decap(&mut d, &tb[ib]);
                ib += 1;
            }
            d.reset_last_label(); // new frame
            let start = RxS::of(&d);
            // build the frame
            let mut pkts: Vec<&[u8]> = vec![];
            let (mut ja, mut jb) = (ia, ib);
            let mut ok = true;
            for p in seq {
                match p {
                    Pick::A => {
                        if ja < ta.len() {
                            pkts.push(&ta[ja]);
                            ja += 1;
                        } else {
                            ok = false;
                        }
                    }
                    Pick::B => {
                        if jb < tb.len() {
                            pkts.push(&tb[jb]);
                            jb += 1;
                        } else {
                            ok = false;
                        }
                    }
                    Pick::S(i) => pkts.push(&singles[*i].1),
                }
            }
            if !ok {
                continue;
            }
            for npad in 0..=5usize {
                acc.states += 1;
                let mut frame: Vec<u8> = pkts.iter().flat_map(|p| p.iter().cloned()).collect();
                frame.extend(std::iter::repeat(0u8).take(npad));
                // reference walk: each packet alone, in order, on a twin receiver
                let mut twin = start.build(DefaultCrc {}, mgr.clone());
                let mut walker = start.build(DefaultCrc {}, mgr.clone());
                let mut off = 0usize;
                let mut bad: Option<String> = None;
                for (k, p) in pkts.iter().enumerate() {
                    let alone = do_decap(&mut twin, p);
                    let inframe = do_decap(&mut walker, &frame[off..]);
                    acc.transitions += 2;
                    acc.calls += 2;
                    acc.compared += 1;
                    if alone != inframe {
                        bad = Some(format!("packet #{} ({} bytes at offset {}): alone -> {}, in the frame -> {}", k, p.len(), off, alone.brief(), inframe.brief()));
                        break;
                    }
                    match inframe.consumed() {
                        Some(c) if c == p.len() => off += c,
                        other => {
                            bad = Some(format!("packet #{} consumed {:?} instead of {}", k, other, p.len()));
                            break;
                        }
                    }
                    // both receivers get their delivered buffers back
                    for (dd, o) in [(&mut twin, &alone), (&mut walker, &inframe)] {
                        if let DecapOut::Completed { buf, .. } = o {
                            let _ = dd.provision_storage(vec![0u8; buf.len()].into_boxed_slice());
                        }
                    }
                }
                if bad.is_none() && frame.len() - off >= 2 {
                    let o = do_decap(&mut walker, &frame[off..]);
                    acc.transitions += 1;
                    if o != (DecapOut::Padding { consumed: frame.len() - off }) {
                        bad = Some(format!("the {} trailing zero bytes -> {}", frame.len() - off, o.brief()));
                    }
                }
                if let Some(b) = bad {
                    rep.violation("C10|frame-walk", (seq.len() * 10 + npad) as u64, || (format!("frame of {} packets + {} zero bytes: {}", pkts.len(), npad, b), json!({"earlier_frame": {"train_A_packets": pa, "train_B_packets": pb}, "frame": hex(&frame), "picks": format!("{:?}", seq)})));
                }
            }
        }
        rep.merge(acc);
    });
    rep.part(json!({"part":"end-to-end frames","max_packets_per_frame":maxlen,"choices_per_position":picks.len(),"earlier_frame_prefixes":6,"paddings":"0..=5"}));
    rep.sample(99, || json!({"frame_example": {"train_A": ta.iter().map(|p| hex(p)).collect::<Vec<_>>(), "singles": singles.iter().map(|s| s.0.clone()).collect::<Vec<_>>()}}));
}
