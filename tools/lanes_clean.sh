#!/bin/bash
# removes the scratch lanes of tools/lanes.sh (worktrees + build output)
for d in /tmp/lanes/*/repo; do [ -d "$d" ] && git -C /repo worktree remove --force "$d"; done
git -C /repo worktree prune; rm -rf /tmp/lanes
