//! C20 — packet structs in utils serialise and parse consistently with the codec.

use crate::common::*;
use crate::refm::{self, crc_ref, Desc, Kind};
use crate::report::{Acc, Report, Tier};
use crate::rx::*;
use crate::tx::*;
use dvb_gse_rust::crc::DefaultCrc;
use dvb_gse_rust::gse_encap::Encapsulator;
use dvb_gse_rust::utils::{GseCompletePacket, GseEndFragPacket, GseFirstFragPacket, GseIntermediatePacket, Serialisable};
use rayon::prelude::*;
use serde_json::json;

fn viol(rep: &Report, sig: &str, rank: u64, what: String, d: &Desc) {
    rep.violation(sig, rank, || (what, json!({"kind": d.kind.name(), "lt": d.lt, "frag_id": d.frag_id, "total_len": d.total_len, "pt": d.type_field, "label": hex(&d.label), "payload_len": d.payload.len(), "payload_head": hexs(&d.payload[..d.payload.len().min(16)]), "crc": d.crc})));
}

fn lbl_of(d: &Desc) -> Lbl {
    match d.lt {
        0 => Lbl::Six(d.label.clone().try_into().unwrap()),
        1 => Lbl::Three(d.label.clone().try_into().unwrap()),
        2 => Lbl::Bcast,
        _ => Lbl::ReUse,
    }
}

/// the crate's generate() for a description
fn generate(d: &Desc) -> Result<Vec<u8>, Panicked> {
    let n = d.print().len();
    let gl = (n - 2) as u16;
    let l = lbl_of(d);
    catch(|| {
        let mut b = vec![0u8; n];
        match d.kind {
            Kind::Complete => GseCompletePacket::new(gl, d.type_field, l.to_label(), &d.payload).generate(&mut b),
            Kind::First => GseFirstFragPacket::new(gl, d.frag_id, d.total_len, d.type_field, l.to_label(), &d.payload).generate(&mut b),
            Kind::Inter => GseIntermediatePacket::new(gl, d.frag_id, &d.payload).generate(&mut b),
            Kind::End => GseEndFragPacket::new(gl, d.frag_id, &d.payload, d.crc).generate(&mut b),
        }
        b
    })
}

/// run every clause for one description
fn check(rep: &Report, acc: &mut Acc, d: &Desc, rank: u64, total_consistent_with_pdu: Option<usize>) {
    let want = d.print();
    let gl = (want.len() - 2) as u16;
    let l = lbl_of(d);
    acc.states += 1;
    acc.compared += 1;
    acc.sout(d.kind.name(), d.lt as u32);
    let kn = d.kind.name();
    // generate
    let gen = generate(d);
    acc.transitions += 1;
    acc.calls += 1;
    let bytes = match gen {
        Err(p) => {
            viol(rep, &format!("C20|generate-panic|{}|{}", kn, p.coarse()), rank, format!("generate panics at {}", p.0), d);
            return;
        }
        Ok(b) => b,
    };
    if bytes != want {
        let k = bytes.iter().zip(want.iter()).position(|(a, b)| a != b).unwrap_or(0);
        viol(rep, &format!("C20|generate-vs-standard|{}", kn), rank, format!("generate() = {} but the standard layout gives {} (first difference at byte {})", hexs(&bytes), hexs(&want), k), d);
    }
    // parse(generate(d)) == d
    acc.transitions += 1;
    acc.calls += 1;
    let same = catch(|| match d.kind {
        Kind::Complete => GseCompletePacket::parse(&bytes).map(|p| p == GseCompletePacket::new(gl, d.type_field, l.to_label(), &d.payload)),
        Kind::First => GseFirstFragPacket::parse(&bytes).map(|p| p == GseFirstFragPacket::new(gl, d.frag_id, d.total_len, d.type_field, l.to_label(), &d.payload)),
        Kind::Inter => GseIntermediatePacket::parse(&bytes).map(|p| p == GseIntermediatePacket::new(gl, d.frag_id, &d.payload)),
        Kind::End => GseEndFragPacket::parse(&bytes).map(|p| p == GseEndFragPacket::new(gl, d.frag_id, &d.payload, d.crc)),
    });
    match same {
        Err(p) => viol(rep, &format!("C20|parse-panic|{}|{}", kn, p.coarse()), rank, format!("parse(generate(d)) panics at {}", p.0), d),
        Ok(Err(e)) => viol(rep, &format!("C20|parse-error|{}", kn), rank, format!("parse(generate(d)) fails: {}", e), d),
        Ok(Ok(false)) => viol(rep, &format!("C20|parse-roundtrip|{}", kn), rank, "parse(generate(d)) differs from d".into(), d),
        Ok(Ok(true)) => {}
    }
    // what the real encapsulator emits for the same fields
    let enc_bytes: Option<Vec<u8>> = match d.kind {
        Kind::Complete => {
            // the same description is what an encapsulator emits with re-use disabled and with re-use enabled but the
            // consecutive-re-use limit reached for this very label (the full label is due again)
            if l.is_addr() && d.payload.len() <= 8 {
                // ... and after another label was sent and calls with THIS label were refused (nothing of them on the wire)
                let mut enc = crate::sender::build_prior(DefaultCrc {}, crate::sender::Prior::OtherThenRefused, l);
                let mut b = vec![0u8; want.len() + 3];
                match do_encap(&mut enc, &d.payload, 0, d.type_field, l, &mut b) {
                    EncOut::Completed(n) if b[..n.min(b.len())] == bytes[..] => {}
                    other => viol(rep, &format!("C20|generate-vs-encapsulator|{}|after-refused-calls|{}", kn, other.class()), rank, format!("an encapsulator that sent another label and then refused calls with this label answers {:?} ({}) where the full-label packet {} is due", other, hexs(&b[..other.len().unwrap_or(0).min(b.len()).min(24)]), hexs(&bytes[..bytes.len().min(24)])), d),
                }
                // ... and after this label, re-use off, another label, re-use on again
                let mut enc = crate::sender::build_prior(DefaultCrc {}, crate::sender::Prior::SameOffOtherOn, l);
                let mut b = vec![0u8; want.len() + 3];
                match do_encap(&mut enc, &d.payload, 0, d.type_field, l, &mut b) {
                    EncOut::Completed(n) if b[..n.min(b.len())] == bytes[..] => {}
                    other => viol(rep, &format!("C20|generate-vs-encapsulator|{}|after-off-other-on|{}", kn, other.class()), rank, format!("an encapsulator that sent this label, then another label while re-use was switched off, answers {:?} after re-use is switched on again, where the description says {}", other, hex(&bytes)), d),
                }
                let mut enc = crate::sender::build_prior(DefaultCrc {}, crate::sender::Prior::SameAtMax, l);
                let mut b = vec![0u8; want.len() + 3];
                match do_encap(&mut enc, &d.payload, 0, d.type_field, l, &mut b) {
                    EncOut::Completed(n) if b[..n.min(b.len())] == bytes[..] => {}
                    other => viol(rep, &format!("C20|generate-vs-encapsulator|{}|at-reuse-limit|{}", kn, other.class()), rank, format!("an encapsulator at its consecutive-re-use limit for this label answers {:?} where the full-label packet {} is due", other, hexs(&bytes[..bytes.len().min(24)])), d),
                }
            }
            let mut enc = Encapsulator::new(DefaultCrc {});
            enc.disable_re_use_label();
            let mut b = vec![0u8; want.len() + 3];
            match do_encap(&mut enc, &d.payload, 0, d.type_field, l, &mut b) {
                EncOut::Completed(n) => Some(b[..(n).min(b.len())].to_vec()),
                _ => None,
            }
        }
        Kind::First => total_consistent_with_pdu.and_then(|plen| {
            let mut enc = Encapsulator::new(DefaultCrc {});
            let mut pd = d.payload.clone();
            pd.resize(plen, 0x3C);
            let mut b = vec![0u8; want.len()];
            let out = if d.lt == 3 {
                // a first fragment with a re-use label is what the encapsulator emits, with re-use enabled, for a PDU whose
                // label equals that of the preceding packet: reach it that way (not by passing Label::ReUse)
                let mut scratch = [0u8; 32];
                let _ = do_encap(&mut enc, &[0x42], 0, 0x0800, L3B, &mut scratch);
                do_encap(&mut enc, &pd, d.frag_id, d.type_field, L3B, &mut b)
            } else {
                enc.disable_re_use_label();
                do_encap(&mut enc, &pd, d.frag_id, d.type_field, l, &mut b)
            };
            match out {
                EncOut::Fragmented(n, _) => Some(b[..(n).min(b.len())].to_vec()),
                EncOut::Err(e) if want.len() >= 13 => {
                    // the description is well-formed, its PDU fits the 16-bit total length and the buffer has the 13 bytes
                    // every sender accepts: the encapsulator has to emit it
                    viol(rep, &format!("C20|encapsulator-refuses|{}|{}", kn, e), rank, format!("the encapsulator answers {} for a PDU of {} bytes (total length {}) in a buffer of {} bytes where generate() gives {}", e, plen, d.total_len, want.len(), hexs(&bytes[..bytes.len().min(24)])), d);
                    None
                }
                _ => None,
            }
        }),
        Kind::Inter => {
            if d.payload.is_empty() {
                None
            } else {
                let enc = Encapsulator::new(DefaultCrc {});
                let mut pd = vec![0x5Au8; 3];
                pd.extend_from_slice(&d.payload);
                pd.extend_from_slice(&[0x5B; 9]);
                let mut b = vec![0u8; want.len()];
                match do_encap_frag(&enc, &pd, Ctx { id: d.frag_id, crc: 1, pos: 3 }, &mut b) {
                    EncOut::Fragmented(n, _) => Some(b[..(n).min(b.len())].to_vec()),
                    _ => None,
                }
            }
        }
        Kind::End => {
            let enc = Encapsulator::new(DefaultCrc {});
            let mut pd = vec![0x5Au8; 3];
            pd.extend_from_slice(&d.payload);
            let mut b = vec![0u8; want.len() + 5];
            match do_encap_frag(&enc, &pd, Ctx { id: d.frag_id, crc: d.crc, pos: 3 }, &mut b) {
                EncOut::Completed(n) => Some(b[..(n).min(b.len())].to_vec()),
                _ => None,
            }
        }
    };
    if let Some(eb) = enc_bytes {
        acc.transitions += 1;
        acc.calls += 1;
        acc.compared += 1;
        if eb != bytes {
            // How many payload bytes a fragment carries is the sender's choice: when the emitted packet differs from
            // the description ONLY by carrying a shorter slice of the same payload (possibly as an intermediate
            // instead of an end packet), the clause is judged on the description of what was emitted.
            let emitted = refm::parse(&eb, &|_| None).ok().filter(|p| p.gse_len + 2 == eb.len()).map(|p| Desc {
                kind: p.kind,
                lt: p.lt,
                frag_id: p.frag_id.unwrap_or(0),
                total_len: p.total_len.unwrap_or(0),
                type_field: p.type_field.unwrap_or(0),
                label: p.label.clone(),
                ext_bytes: vec![],
                payload: p.payload.clone(),
                crc: p.crc.unwrap_or(0),
                gse_len: None,
            });
            let only_shorter = emitted.as_ref().map_or(false, |e| {
                let kind_ok = e.kind == d.kind || (d.kind == Kind::End && e.kind == Kind::Inter);
                let crc_ok = e.kind != Kind::End || e.crc == d.crc;
                kind_ok && crc_ok && e.lt == d.lt && e.frag_id == d.frag_id && e.total_len == d.total_len && e.type_field == d.type_field && e.label == d.label && e.payload.len() < d.payload.len() && d.payload.starts_with(&e.payload) && e.print() == eb
            });
            match (only_shorter, emitted) {
                (true, Some(e)) => {
                    acc.calls += 1;
                    match generate(&e) {
                        Ok(g) if g == eb => {}
                        Ok(g) => viol(rep, &format!("C20|generate-vs-encapsulator|{}", e.kind.name()), rank, format!("the encapsulator carries {} of the {} payload bytes and emits {} but generate() gives {} for those fields", e.payload.len(), d.payload.len(), hexs(&eb), hexs(&g)), &e),
                        Err(p) => viol(rep, &format!("C20|generate-panic|{}|{}", e.kind.name(), p.coarse()), rank, format!("generate panics at {}", p.0), &e),
                    }
                }
                _ => viol(rep, &format!("C20|generate-vs-encapsulator|{}", kn), rank, format!("generate() = {} but the encapsulator emits {} for the same fields", hexs(&bytes), hexs(&eb)), d),
            }
        }
    }
    // what the real decapsulator reads from the generated bytes
    let mut rxs = RxS::new(2, 4100, &[4100]);
    let pos = 3usize;
    match d.kind {
        Kind::Complete | Kind::First => {
            if d.lt == 3 {
                rxs.last = Some(L3B);
            }
        }
        Kind::Inter | Kind::End => {
            // context primed so that, for an end packet, length and CRC verify exactly when the
            // description's CRC is the true one
            let mut st = vec![0u8; 4100];
            st[..pos].copy_from_slice(&[0x5A; 3]);
            let total = (pos + d.payload.len() + 2 + 3) as u16;
            rxs.mem.free.clear();
            rxs.mem.set_ctx(CtxS { label: L3A, pt: 0x0800, frag_id: d.frag_id, total_len: total, pdu_len: pos as u16, from_reuse: false, exts: vec![] }, st);
        }
    }
    // a first fragment must also be accepted when its memory slot is held by an unfinished train of ANOTHER (aliasing) id:
    // it claims the slot
    if d.kind == Kind::First && (d.total_len as usize) > d.payload.len() + 2 + d.label.len() && d.payload.len() <= 64 {
        let mut rxa = rxs.clone();
        rxa.mem.set_ctx(CtxS { label: L6B, pt: 0x86DD, frag_id: d.frag_id.wrapping_add(2), total_len: 40, pdu_len: 1, from_reuse: false, exts: vec![] }, vec![0u8; 4100]);
        let (oa, _) = step_decap(&rxa, &DefaultCrc {}, &TableMgr::none(), &bytes);
        acc.transitions += 1;
        acc.calls += 1;
        acc.compared += 1;
        if !matches!(oa, DecapOut::Fragmented { .. }) {
            viol(rep, &format!("C20|generate-vs-decapsulator|{}|slot-held-by-aliasing-id", kn), rank, format!("decap refuses the generated bytes when the slot is held by an unfinished train of frag id {}: {}", d.frag_id.wrapping_add(2), oa.brief()), d);
        }
    }
    let (out, after) = step_decap(&rxs, &DefaultCrc {}, &TableMgr::none(), &bytes);
    acc.transitions += 1;
    acc.calls += 1;
    acc.compared += 1;
    let mut bad: Option<String> = None;
    match d.kind {
        Kind::Complete => match &out {
            DecapOut::Completed { buf, meta, consumed } => {
                let wl = if d.lt == 3 { L3B } else { l };
                if *consumed != bytes.len() || meta.pdu_len != d.payload.len() || buf[..d.payload.len()] != d.payload[..] || meta.pt != d.type_field || meta.label != wl {
                    bad = Some(format!("decap reads other field values: {}", out.brief()));
                }
            }
            o => bad = Some(format!("decap refuses the generated bytes: {}", o.brief())),
        },
        Kind::First => {
            if (d.total_len as usize) <= d.payload.len() + 2 + d.label.len() {
                // total length not larger than what this fragment alone accounts for (protocol type, label, payload):
                // no PDU can have this first fragment, a receiver may refuse it at once
            } else {
                match &out {
                    DecapOut::Fragmented { meta, consumed } => {
                        let wl = if d.lt == 3 { L3B } else { l };
                        let ctx = after.mem.ctx_in_class(d.frag_id);
                        let okc = ctx.map(|(c, b)| c.frag_id == d.frag_id && c.total_len == d.total_len && c.pdu_len as usize == d.payload.len() && c.pt == d.type_field && c.label == wl && b[..d.payload.len()] == d.payload[..]).unwrap_or(false);
                        if *consumed != bytes.len() || meta.pt != d.type_field || meta.label != wl || !okc {
                            bad = Some(format!("decap reads other field values: {} / context {:?}", out.brief(), ctx.map(|c| &c.0)));
                        }
                    }
                    o => bad = Some(format!("decap refuses the generated bytes: {}", o.brief())),
                }
            }
        }
        Kind::Inter => {
            if !d.payload.is_empty() {
                match &out {
                    DecapOut::Fragmented { consumed, .. } => {
                        let ctx = after.mem.ctx_in_class(d.frag_id);
                        let okc = ctx.map(|(c, b)| c.pdu_len as usize == pos + d.payload.len() && b[pos..pos + d.payload.len()] == d.payload[..]).unwrap_or(false);
                        if *consumed != bytes.len() || !okc {
                            bad = Some(format!("decap reads other field values: {}", out.brief()));
                        }
                    }
                    o => bad = Some(format!("decap refuses the generated bytes: {}", o.brief())),
                }
            }
        }
        Kind::End => {
            let mut pd = vec![0x5Au8; 3];
            pd.extend_from_slice(&d.payload);
            let true_crc = crc_ref((pd.len() + 2 + 3) as u16, 0x0800, &L3A.bytes(), &pd);
            match &out {
                DecapOut::Completed { buf, meta, consumed } => {
                    if d.crc != true_crc {
                        bad = Some("decap delivers although the description's CRC is not the CRC of the reassembled PDU (it does not read the CRC field where generate writes it)".into());
                    } else if *consumed != bytes.len() || meta.pdu_len != pd.len() || buf[..pd.len()] != pd[..] {
                        bad = Some(format!("decap reads other field values: {}", out.brief()));
                    }
                }
                DecapOut::Err { kind, .. } if kind == "ErrorCrc" => {
                    if d.crc == true_crc {
                        bad = Some("decap reports a CRC error although the description carries the true CRC".into());
                    }
                }
                o => bad = Some(format!("decap refuses the generated bytes: {}", o.brief())),
            }
        }
    }
    if let Some(b) = bad {
        viol(rep, &format!("C20|generate-vs-decapsulator|{}", kn), rank, b, d);
    }
}

pub fn run(tier: Tier) -> i32 {
    let rep = Report::new("C20", tier);
    rep.set_rule("lattice of well-formed packet descriptions: 4 kinds x labels {6B, 3B, broadcast, re-use (complete/first)} x payload lengths (quick: 0..=64 and 3990..=4000 and every 37th; thorough: all 0..=4000 within the 12-bit GSE length) x fragment ids (all 256 for payloads <= 4, else 3) x protocol types {0x0600, 0x0800, 0xFFFF} x total length {consistent, payload+1, 0xFFFF, and PDUs within 7 bytes of the 16-bit limit} x CRC {0, 0xFFFFFFFF, 0xDEADBEEF, true value}; all payload contents of length <= 1; clauses: parse(generate(d)) == d, generate(d) == reference printer, == the bytes the real encapsulator emits for the same fields (re-use first fragments reached through the encapsulator's own substitution; a refusal of a well-formed first fragment is a violation), the real decapsulator reads the same field values (context primed for continuation packets; the CRC field is located by 'delivered iff CRC is the true one'); distinct = (kind, label type)");
    let lens: Vec<usize> = if tier.thorough() { (0..=4000).collect() } else { uniq((0..=64).chain(3990..=4000).chain((0..=4000).step_by(37)).collect()) };
    lens.par_iter().for_each(|&n| {
        if rep.over_time() {
            rep.cap("lattice: wall cap");
            return;
        }
        let mut acc = Acc::default();
        let fids: Vec<u8> = if n <= 4 { (0..=255).collect() } else { vec![0, 1, 255] };
        let contents: Vec<Vec<u8>> = if n == 0 { vec![vec![]] } else if n == 1 { (0..=255u8).map(|x| vec![x]).collect() } else { vec![pdu(n, (n % 4) as u8)] };
        for payload in &contents {
            let mut lbls = vec![L6A, L3A, Lbl::Bcast, Lbl::ReUse];
            if n <= 2 || n % 500 == 0 {
                lbls.extend(special_labels().into_iter().filter(|l| *l != L6Z));
            }
            for l in lbls {
                for pt in [0x0600u16, 0x0800, 0xFFFF] {
                    // complete
                    if 2 + l.wire_len() + n <= GSE_LEN_MAX {
                        check(&rep, &mut acc, &Desc::complete(l, pt, payload), n as u64, None);
                    }
                    // first
                    if 5 + l.wire_len() + n <= GSE_LEN_MAX {
                        for &fid in &fids {
                            let consistent_pdu = n + 7;
                            for (ti, total) in [(2 + l.wire_len() + consistent_pdu) as u16, (n + 1) as u16, 0xFFFF].into_iter().enumerate() {
                                check(&rep, &mut acc, &Desc::first(l, pt, fid, total, payload), n as u64, if ti == 0 { Some(consistent_pdu) } else { None });
                            }
                            // PDUs at the limit of the 16-bit total length (which counts the label AS WRITTEN)
                            if (6..=8).contains(&n) && fid == fids[0] && pt == 0x0800 {
                                for back in [0usize, 1, 3, 6, 7] {
                                    let big = 65533 - l.wire_len() - back;
                                    if big > n + 8 {
                                        check(&rep, &mut acc, &Desc::first(l, pt, fid, (2 + l.wire_len() + big) as u16, payload), n as u64, Some(big));
                                    }
                                }
                            }
                        }
                    }
                }
            }
            for &fid in &fids {
                if 1 + n <= GSE_LEN_MAX {
                    check(&rep, &mut acc, &Desc::inter(fid, payload), n as u64, None);
                }
                if 5 + n <= GSE_LEN_MAX {
                    let mut pd = vec![0x5Au8; 3];
                    pd.extend_from_slice(payload);
                    let true_crc = crc_ref((pd.len() + 2 + 3) as u16, 0x0800, &L3A.bytes(), &pd);
                    for crc in [0u32, 0xFFFF_FFFF, 0xDEAD_BEEF, true_crc] {
                        check(&rep, &mut acc, &Desc::end(fid, payload, crc), n as u64, None);
                    }
                }
            }
        }
        if rep.sample_wanted(n as u64) {
            rep.sample(n as u64, || json!({"payload_len": n, "kinds": 4, "labels": 4, "frag_ids": fids.len()}));
        }
        rep.merge(acc);
    });
    rep.part(json!({"part":"description lattice","payload_lengths":lens.len()}));
    rep.sample(0, || json!({"example": {"kind": "FirstFragPkt", "label": "3B", "payload_len": 2, "total_len": 14, "pt": "0x0800", "frag_id": 0}}));
    rep.finish(true)
}
