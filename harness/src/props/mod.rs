pub mod c06;
pub mod c09;
pub mod c11;
pub mod c14;
