//! C09 — encapsulation calls are total and failure-atomic.

use crate::common::*;
use crate::props::c06::{chains, is_final_mand, positions, pt_for_chain};
use crate::report::{Acc, Report, Tier};
use crate::rx::FastCrc;
use crate::sender::*;
use crate::tx::*;
use dvb_gse_rust::gse_encap::Encapsulator;
use rayon::prelude::*;
use serde_json::json;

pub const PT_Q: [u16; 12] = [0x0000, 0x0081, 0x00FF, 0x0100, 0x0101, 0x0300, 0x05FF, 0x0600, 0x0601, 0x0800, 0x86DD, 0xFFFF];

fn labels() -> Vec<Lbl> {
    vec![L6A, L3A, Lbl::Bcast, Lbl::ReUse, L6Z]
}

/// next packets from two encapsulators must be byte-identical
fn continuation_differs(a: &Encapsulator<FastCrc>, b: &Encapsulator<FastCrc>, l: Lbl) -> Option<String> {
    let probe = [0x77u8; 3];
    for pl in [l, L6B, L3B] {
        if pl == L6Z {
            continue;
        }
        let mut ea = a.clone();
        let mut eb = b.clone();
        for round in 0..2 {
            let mut ba = [0xEEu8; 64];
            let mut bb = [0xEEu8; 64];
            let ra = do_encap(&mut ea, &probe, 1, 0x0800, pl, &mut ba);
            let rb = do_encap(&mut eb, &probe, 1, 0x0800, pl, &mut bb);
            if ra != rb || ba != bb {
                return Some(format!("next packet #{} for label {}: after the failed call {:?} bytes {}, without it {:?} bytes {}", round + 1, pl.short(), ra, hex(&ba[..16]), rb, hex(&bb[..16])));
            }
        }
    }
    None
}

struct ErrCheck<'a> {
    call: &'static str,
    rep: &'a Report,
    rank: u64,
    reg: String,
}

impl<'a> ErrCheck<'a> {
    /// common clauses for one first-call result
    fn check(&self, out: &EncOut, buf: &[u8], sent: u8, pre: &Encapsulator<FastCrc>, post: &Encapsulator<FastCrc>, l: Lbl, must_reject: Option<&str>, desc: &dyn Fn() -> (String, serde_json::Value)) {
        match out {
            EncOut::Panic(p) => {
                let pk = Panicked(p.clone());
                let sig = format!("C09|{}|panic|{}|{}", self.call, pk.coarse(), self.reg);
                self.rep.violation(&sig, self.rank, || {
                    let (d, w) = desc();
                    (format!("{} panics at {}", d, p), w)
                });
            }
            EncOut::Err(e) => {
                if let Some(k) = buf.iter().position(|&x| x != sent) {
                    let sig = format!("C09|{}|buffer-modified-on-err|{}|{}", self.call, e, self.reg);
                    self.rep.violation(&sig, self.rank, || {
                        let (d, w) = desc();
                        (format!("{} returned Err({}) but modified the output buffer at offset {}", d, e, k), w)
                    });
                }
                if pre != post {
                    let sig = format!("C09|{}|state-changed-on-err|{}", self.call, e);
                    self.rep.violation(&sig, self.rank, || {
                        let (d, w) = desc();
                        (format!("{} returned Err({}) but changed the encapsulator: before {:?}, after {:?}", d, e, pre, post), w)
                    });
                }
                if let Some(diff) = continuation_differs(post, pre, l) {
                    let sig = format!("C09|{}|continuation-differs|{}", self.call, e);
                    self.rep.violation(&sig, self.rank, || {
                        let (d, w) = desc();
                        (format!("{} returned Err({}) and the next packet differs: {}", d, e, diff), w)
                    });
                }
            }
            _ => {
                if let Some(why) = must_reject {
                    let sig = format!("C09|{}|must-reject|{}", self.call, why);
                    self.rep.violation(&sig, self.rank, || {
                        let (d, w) = desc();
                        (format!("{} returned {:?} although it must return an error ({})", d, out, why), w)
                    });
                }
            }
        }
    }
}

fn must_reject_first(l: Lbl, pt: u16, p: usize, may_sub: bool) -> Option<&'static str> {
    if l == L6Z {
        return Some("zero 6-byte label");
    }
    if (0x0100..=0x05FF).contains(&pt) {
        return Some("protocol type in 0x0100..=0x05FF");
    }
    // as written the label may be empty after a substitution
    let lw = if may_sub { 0 } else { l.wire_len() };
    if 2 + lw + p > TOTAL_LEN_MAX {
        return Some("PDU exceeds the 16-bit total length");
    }
    None
}

pub fn run(tier: Tier) -> i32 {
    let rep = Report::new("C09", tier);
    rep.set_rule("complete product lattices over (PDU length, buffer length, label incl. zero and explicit re-use, protocol type, prior encapsulator state) for encap / encap_preview, (chain of 0..=3(4) extensions, protocol type, label, sizes) for encap_ext, (PDU length, context position incl. beyond the PDU, buffer length) for encap_frag / encap_frag_preview; oracle: no panic, Err leaves buffer and encapsulator unchanged (equality with the pre-call clone and identical next packets), mandatory rejections; distinct = (call, outcome, regime)");
    rep.assume("sizes between the enumerated windows are represented by the windows; thorough closes PDU length and buffer length one at a time");
    encap_lattice(&rep, tier);
    pt_sweep(&rep, tier);
    frag_lattice(&rep, tier);
    ext_lattice(&rep, tier);
    limit_histories(&rep);
    rep.finish(true)
}

/// Histories under a consecutive-re-use limit: enable_re_use_label_with_max_consecutive(N) for N in {1, 2, 3, 254, 255},
/// the same label sent N + 3 times (so the counter runs through every value up to and past the limit, including the
/// top of its 8-bit range); before each send, every buffer size 0..=20 is tried on a clone through encap and encap_ext
/// with the common clauses (no panic, Err leaves buffer and encapsulator unchanged)
fn limit_histories(rep: &Report) {
    let cases: Vec<(u8, Lbl, bool)> = [1u8, 2, 3, 254, 255].iter().flat_map(|&m| [L6A, L3A].into_iter().flat_map(move |l| [false, true].into_iter().map(move |e| (m, l, e)))).collect();
    cases.par_iter().for_each(|&(max, l, via_ext)| {
        let mut acc = Acc::default();
        let mut enc = fast_enc();
        enc.enable_re_use_label_with_max_consecutive(max);
        let pd = pdu(5, 0);
        let exts = [(0x0101u16, vec![])];
        for k in 0..(max as usize + 3) {
            for b in 0..=20usize {
                for ext2 in [false, true] {
                    let mut e2 = enc.clone();
                    let sent = SENTINELS[b % 2];
                    let mut buf = vec![sent; b];
                    let out = if ext2 { do_encap_ext(&mut e2, &pd, 7, 0x0800, l, &mut buf, &exts) } else { do_encap(&mut e2, &pd, 7, 0x0800, l, &mut buf) };
                    acc.states += 1;
                    acc.transitions += 1;
                    acc.calls += 1;
                    acc.compared += 1;
                    acc.outcome(&format!("limit-history:{}:{}", if ext2 { "encap_ext" } else { "encap" }, out.class()));
                    let ec = ErrCheck { call: if ext2 { "encap_ext" } else { "encap" }, rep, rank: (k * 100 + b) as u64, reg: "re-use-limit-history".into() };
                    ec.check(&out, &buf, sent, &enc, &e2, l, None, &|| {
                        (format!("after enable_re_use_label_with_max_consecutive({}) and {} packets with label {}: {}(pdu_len=5, label={}, buffer={})", max, k, l.short(), if ext2 { "encap_ext" } else { "encap" }, l.short(), b),
                         json!({"call": if ext2 { "encap_ext" } else { "encap" },"history":format!("enable_re_use_label_with_max_consecutive({}); {} x {}(label {}, 64-byte buffer)", max, k, if via_ext { "encap_ext" } else { "encap" }, l.short()),"pdu_len":5,"label":l.short(),"buffer_len":b}))
                    });
                }
            }
            let mut big = [0u8; 64];
            let out = if via_ext { do_encap_ext(&mut enc, &pd, 7, 0x0800, l, &mut big, &exts) } else { do_encap(&mut enc, &pd, 7, 0x0800, l, &mut big) };
            acc.calls += 1;
            if !matches!(out, EncOut::Completed(_)) {
                let ec = ErrCheck { call: if via_ext { "encap_ext" } else { "encap" }, rep, rank: k as u64, reg: "re-use-limit-history".into() };
                if matches!(out, EncOut::Panic(_)) {
                    ec.check(&out, &big, 0, &enc, &enc, l, None, &|| {
                        (format!("after enable_re_use_label_with_max_consecutive({}) and {} packets with label {}: packet {} into a 64-byte buffer", max, k, l.short(), k + 1), json!({"history":format!("enable_re_use_label_with_max_consecutive({}); {} x {}(label {})", max, k + 1, if via_ext { "encap_ext" } else { "encap" }, l.short())}))
                    });
                }
                break;
            }
        }
        rep.merge(acc);
    });
    rep.part(json!({"part":"re-use limit histories","limits":[1,2,3,254,255],"labels":2,"packets":"limit + 3","buffers":"0..=20 on a clone before every packet, encap and encap_ext"}));
}

fn encap_lattice(rep: &Report, tier: Tier) {
    let ps: Vec<usize> = if tier.thorough() { let mut v = p_set(); v.extend((0..=70000).step_by(11)); uniq(v) } else { p_set() };
    let bs: Vec<usize> = if tier.thorough() { let mut v = b_set(); v.extend((0..=70000).step_by(499)); uniq(v) } else { b_set() };
    let cells: Vec<(usize, Lbl)> = ps.iter().flat_map(|&p| labels().into_iter().chain(if p < 48 { special_labels() } else { vec![] }).map(move |l| (p, l))).collect();
    cells.par_iter().for_each(|&(p, l)| {
        if rep.over_time() {
            rep.cap("encap_lattice: wall cap");
            return;
        }
        let mut acc = Acc::default();
        let pd = pdu(p, 0);
        let mut bl = bs.clone();
        bl.extend(b_relative(p, l.wire_len(), 0));
        let bl = uniq(bl);
        let maxb = *bl.last().unwrap();
        let mut bufs = [vec![SENTINELS[0]; maxb], vec![SENTINELS[1]; maxb]];
        for (pi, &prior) in PRIORS.iter().enumerate() {
            if !l.is_addr() && !matches!(prior, Prior::Fresh | Prior::Disabled | Prior::Other) {
                continue;
            }
            let base = build_prior(FastCrc, prior, l);
            for &b in &bl {
                let pts: Vec<u16> = if p <= 8 && b <= 24 { PT_Q.to_vec() } else { vec![PT_Q[(p + b + pi) % PT_Q.len()], 0x0800] };
                for pt in pts {
                    let si = (p + b + pt as usize) % 2;
                    let sent = SENTINELS[si];
                    let buf = &mut bufs[si][..b];
                    let mut enc = base.clone();
                    let out = do_encap(&mut enc, &pd, 0x5A, pt, l, buf);
                    acc.states += 1;
                    acc.transitions += 1;
                    acc.calls += 1;
                    acc.compared += 1;
                    acc.outcome(&format!("encap:{}:{}", out.class(), regime(p, b)));
                    let ec = ErrCheck { call: "encap", rep, rank: (p * 100_000 + b) as u64, reg: regime(p, b) };
                    ec.check(&out, buf, sent, &base, &enc, l, must_reject_first(l, pt, p, prior.may_substitute(l)), &|| {
                        (format!("encap(pdu_len={}, pt={:#06x}, label={}, buffer={}) from prior state {:?}", p, pt, l.short(), b, prior),
                         json!({"call":"encap","pdu_len":p,"pdu_pattern":0,"frag_id":0x5A,"pt":pt,"label":l.short(),"buffer_len":b,"prior":format!("{:?}",prior)}))
                    });
                    // preview: total
                    let pv = do_preview(&pd, pt, l, buf);
                    acc.transitions += 1;
                    acc.calls += 1;
                    acc.outcome(&format!("encap_preview:{}", match &pv { PrevOut::Ok(k, ..) => k.clone(), PrevOut::Err(e) => format!("Err({})", e), PrevOut::Panic(_) => "PANIC".into() }));
                    if let PrevOut::Panic(pp) = &pv {
                        let sig = format!("C09|encap_preview|panic|{}|{}", Panicked(pp.clone()).coarse(), regime(p, b));
                        rep.violation(&sig, (p * 100_000 + b) as u64, || (format!("encap_preview(pdu_len={}, pt={:#06x}, label={}, buffer={}) panics at {}", p, pt, l.short(), b, pp), json!({"call":"encap_preview","pdu_len":p,"pt":pt,"label":l.short(),"buffer_len":b})));
                    }
                    if out.is_ok() || matches!(out, EncOut::Panic(_)) {
                        let dirty = if matches!(out, EncOut::Panic(_)) { b } else { out.len().unwrap_or(0).min(b) };
                        for x in buf[..dirty].iter_mut() {
                            *x = sent;
                        }
                        if buf.iter().any(|&x| x != sent) {
                            for x in buf.iter_mut() {
                                *x = sent;
                            }
                        }
                    } else if buf.iter().any(|&x| x != sent) {
                        for x in buf.iter_mut() {
                            *x = sent;
                        }
                    }
                    if rep.sample_wanted((p * 131 + b) as u64) {
                        rep.sample((p * 131 + b) as u64, || json!({"call":"encap","pdu_len":p,"pt":pt,"label":l.short(),"buffer":b,"prior":format!("{:?}",prior),"result":format!("{:?}",out)}));
                    }
                }
            }
        }
        rep.merge(acc);
    });
    rep.part(json!({"part":"encap + encap_preview lattice","pdu_lengths":ps.len(),"buffer_lengths_base":bs.len(),"labels":5,"priors":PRIORS.len(),"protocol_types":PT_Q.len()}));
}

/// all 65 536 protocol types with a small PDU (thorough); the range boundaries in quick
fn pt_sweep(rep: &Report, tier: Tier) {
    let pts: Vec<u32> = if tier.thorough() { (0..=0xFFFF).collect() } else { (0..=0x0700).chain(0xFF00..=0xFFFF).collect() };
    pts.par_chunks(1024).for_each(|chunk| {
        let mut acc = Acc::default();
        let pd = pdu(3, 0);
        for &pt in chunk {
            let pt = pt as u16;
            for l in [L6A, Lbl::Bcast] {
                for b in [0usize, 5, 9, 13, 15, 64] {
                    let base = fast_enc();
                    let mut enc = base.clone();
                    let mut buf = vec![0xA5u8; b];
                    let out = do_encap(&mut enc, &pd, 1, pt, l, &mut buf);
                    acc.states += 1;
                    acc.transitions += 1;
                    acc.calls += 1;
                    acc.compared += 1;
                    acc.outcome(&format!("encap(pt sweep):{}", out.class()));
                    let ec = ErrCheck { call: "encap", rep, rank: pt as u64, reg: "small".into() };
                    ec.check(&out, &buf, 0xA5, &base, &enc, l, must_reject_first(l, pt, 3, false), &|| {
                        (format!("encap(pdu_len=3, pt={:#06x}, label={}, buffer={})", pt, l.short(), b), json!({"call":"encap","pdu_len":3,"pdu_pattern":0,"frag_id":1,"pt":pt,"label":l.short(),"buffer_len":b,"prior":"Fresh"}))
                    });
                    if let PrevOut::Panic(pp) = do_preview(&pd, pt, l, &buf) {
                        rep.violation(&format!("C09|encap_preview|panic|{}|small", Panicked(pp.clone()).coarse()), pt as u64, || (format!("encap_preview(pt={:#06x}) panics at {}", pt, pp), json!({"pt":pt})));
                    }
                }
            }
        }
        rep.merge(acc);
    });
    rep.part(json!({"part":"protocol type sweep","protocol_types":pts.len()}));
}

fn frag_lattice(rep: &Report, tier: Tier) {
    let mut ps: Vec<usize> = p_set();
    if tier.thorough() {
        ps.extend((0..=70000).step_by(211));
    }
    let ps = uniq(ps);
    let bs = b_set();
    ps.par_iter().for_each(|&p| {
        if rep.over_time() {
            rep.cap("frag_lattice: wall cap");
            return;
        }
        let mut acc = Acc::default();
        let pd = pdu(p, 0);
        let enc = fast_enc();
        let mut bufs = [vec![SENTINELS[0]; 70000], vec![SENTINELS[1]; 70000]];
        for pos in positions(p) {
            let rem = p.saturating_sub(pos);
            let mut bl = bs.clone();
            for d in 0..=4usize {
                bl.push((2 + 1 + rem + 4 + d).saturating_sub(2));
            }
            for b in uniq(bl.into_iter().filter(|&b| b <= 70000).collect()) {
                let si = (p + b + pos) % 2;
                let sent = SENTINELS[si];
                let buf = &mut bufs[si][..b];
                let ctx = Ctx { id: 9, crc: 0xAB00_0000 | pos as u32, pos: pos as u16 };
                let pre = enc.clone();
                let out = do_encap_frag(&enc, &pd, ctx, buf);
                acc.states += 1;
                acc.transitions += 1;
                acc.calls += 1;
                acc.compared += 1;
                acc.outcome(&format!("encap_frag:{}:{}:{}", out.class(), regime(p, b), if pos > p { "ctx>pdu" } else { "ctx<=pdu" }));
                let ec = ErrCheck { call: "encap_frag", rep, rank: (p * 100_000 + b) as u64, reg: regime(rem, b) };
                ec.check(&out, buf, sent, &pre, &enc, L6A, if pos > p { Some("context points beyond the PDU") } else { None }, &|| {
                    (format!("encap_frag(pdu_len={}, context pos {}, buffer={})", p, pos, b), json!({"call":"encap_frag","pdu_len":p,"pdu_pattern":0,"frag_id":9,"ctx_pos":pos,"ctx_crc":ctx.crc,"buffer_len":b}))
                });
                if let PrevOut::Panic(pp) = do_frag_preview(&pd, ctx, buf) {
                    rep.violation(&format!("C09|encap_frag_preview|panic|{}|{}", Panicked(pp.clone()).coarse(), regime(rem, b)), (p * 100_000 + b) as u64, || (format!("encap_frag_preview(pdu_len={}, pos={}, buffer={}) panics at {}", p, pos, b, pp), json!({"pdu_len":p,"ctx_pos":pos,"buffer_len":b})));
                }
                acc.transitions += 1;
                acc.calls += 1;
                let dirty = if matches!(out, EncOut::Panic(_)) { b } else { out.len().unwrap_or(0).min(b) };
                for x in buf[..dirty].iter_mut() {
                    *x = sent;
                }
                if buf.iter().any(|&x| x != sent) {
                    for x in buf.iter_mut() {
                        *x = sent;
                    }
                }
            }
        }
        rep.merge(acc);
    });
    rep.part(json!({"part":"encap_frag + preview lattice","pdu_lengths":ps.len()}));
}

fn ext_lattice(rep: &Report, tier: Tier) {
    let mut ch = chains(if tier.thorough() { 3 } else { 2 });
    ch.push(vec![]); // 0 extensions: the ErrorNoExtensionFound path
    // extensions so large that header + extensions alone exceed the maximum GSE length
    for n in [4070usize, 4085, 4095, 5000] {
        ch.push(vec![(0x0013, vec![0x7E; n])]);
        ch.push(vec![(0x0101, vec![]), (0x0013, vec![0x7E; n])]);
    }
    if tier.thorough() {
        // chains of 4: every chain whose first three letters come from a reduced alphabet
        for c in chains(4).into_iter().filter(|c| c.len() == 4 && c.iter().take(3).all(|e| matches!(e.0, 0x0101 | 0x0303 | 0x0011))) {
            ch.push(c);
        }
    }
    ch.par_iter().enumerate().for_each(|(ci, c)| {
        if rep.over_time() {
            rep.cap("ext_lattice: wall cap");
            return;
        }
        let mut acc = Acc::default();
        let mut pts: Vec<u16> = vec![0x0100, 0x05FF, 0x0800, 0x0081, 0x0042, 0x0011];
        if !c.is_empty() {
            pts.push(pt_for_chain(c));
            pts.push(c.last().unwrap().0);
        }
        let pts = { let mut v = pts; v.sort(); v.dedup(); v };
        let ext_wire: usize = c.iter().map(|e| 2 + e.1.len()).sum::<usize>();
        for &p in &[0usize, 1, 7, 4090, 65530, 65534] {
            let pd = pdu(p, 0);
            for l in [L6A, L6Z, Lbl::Bcast] {
                for prior in [Prior::Fresh, Prior::Same] {
                    if prior == Prior::Same && l != L6A {
                        continue;
                    }
                    let base = build_prior(FastCrc, prior, l);
                    let need = 2 + 2 + l.wire_len() + ext_wire + p.min(4200);
                    let mut bl: Vec<usize> = if p <= 7 { (0..=need + 3).collect() } else { (need.saturating_sub(12)..=need + 3).chain(0..=24).collect() };
                    bl.extend([4097, 4098, 70000]);
                    if ext_wire > 4000 {
                        bl = vec![0, 13, 100, 4097, 4100, 4200, 5100, 8192, 70000];
                    }
                    for b in uniq(bl) {
                        for &pt in &pts {
                            let sent = SENTINELS[(b + p) % 2];
                            let mut buf = vec![sent; b];
                            let mut enc = base.clone();
                            let out = do_encap_ext(&mut enc, &pd, 3, pt, l, &mut buf, c);
                            acc.states += 1;
                            acc.transitions += 1;
                            acc.calls += 1;
                            acc.compared += 1;
                            acc.outcome(&format!("encap_ext:{}:chain{}", out.class(), c.len()));
                            // an empty extension list is not among the rejections the statement lists (a first version
                            // demanded an error for it: a false alarm on a sender that hands such a call over to encap)
                            let mr = must_reject_first(l, pt, p, prior.may_substitute(l));
                            let ec = ErrCheck { call: "encap_ext", rep, rank: (c.len() * 10_000_000 + p * 100 + b) as u64, reg: regime(p, b) };
                            ec.check(&out, &buf, sent, &base, &enc, l, mr, &|| {
                                (format!("encap_ext(pdu_len={}, pt={:#06x}, label={}, buffer={}, extensions={:?}) from prior state {:?}", p, pt, l.short(), b, c.iter().map(|e| e.0).collect::<Vec<_>>(), prior),
                                 json!({"call":"encap_ext","pdu_len":p,"pdu_pattern":0,"frag_id":3,"pt":pt,"label":l.short(),"buffer_len":b,"prior":format!("{:?}",prior),"extensions":c.iter().map(|e| json!([e.0, hex(&e.1)])).collect::<Vec<_>>()}))
                            });
                            if rep.sample_wanted((ci * 7919 + b) as u64) {
                                rep.sample((ci * 7919 + b) as u64, || json!({"call":"encap_ext","chain":c.iter().map(|e| e.0).collect::<Vec<_>>(),"pt":pt,"pdu_len":p,"label":l.short(),"buffer":b,"result":format!("{:?}",out)}));
                            }
                        }
                    }
                }
            }
        }
        let _ = is_final_mand;
        rep.merge(acc);
    });
    rep.part(json!({"part":"encap_ext lattice","chains":ch.len()}));
}
