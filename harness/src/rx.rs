//! Real receiver objects with faithful snapshot / restore (through the cfg(dvb_gse_verif) hooks),
//! plus the trait implementations injected through the crate's public traits.

use crate::common::*;
use dvb_gse_rust::crc::{CrcCalculator, DefaultCrc};
use dvb_gse_rust::gse_decap::{
    DecapContext, DecapError, DecapMemoryError, DecapStatus, Decapsulator, GseDecapMemory, SimpleGseMemory,
};
use dvb_gse_rust::header_extension::{Extension, ExtensionData, MandatoryHeaderExt, MandatoryHeaderExtensionManager};
use std::sync::{Arc, Mutex};

// ---------------------------------------------------------------------------------------
// mandatory-extension manager driven by a table
// ---------------------------------------------------------------------------------------

#[derive(Clone, Debug, PartialEq, Eq, Hash)]
pub struct TableMgr {
    /// (id, is_final, data_len)
    pub known: Vec<(u16, bool, u8)>,
}

impl MandatoryHeaderExtensionManager for TableMgr {
    fn is_mandatory_header_id_known(&self, id: u16) -> MandatoryHeaderExt {
        for &(i, f, n) in &self.known {
            if i == id {
                return if f { MandatoryHeaderExt::Final(n) } else { MandatoryHeaderExt::NonFinal(n) };
            }
        }
        MandatoryHeaderExt::Unknown
    }
}

impl TableMgr {
    pub fn none() -> TableMgr {
        TableMgr { known: vec![] }
    }
    pub fn lookup(&self, id: u16) -> Option<(bool, usize)> {
        self.known.iter().find(|k| k.0 == id).map(|k| (k.1, k.2 as usize))
    }
}

// ---------------------------------------------------------------------------------------
// CRC calculators
// ---------------------------------------------------------------------------------------

/// O(1) CRC stand-in for lattices whose property is not about the CRC value. Depends on every
/// argument length and on a few bytes so that mixed-up arguments still change the value.
#[derive(Clone, Debug, PartialEq, Eq)]
pub struct FastCrc;
impl CrcCalculator for FastCrc {
    fn calculate_crc32(&self, pdu: &[u8], protocol_type: u16, total_length: u16, label: &[u8]) -> u32 {
        let mut x = 0x811C_9DC5u32;
        let mut f = |b: u32| {
            x = (x ^ b).wrapping_mul(0x0100_0193);
        };
        f(total_length as u32);
        f(protocol_type as u32);
        f(label.len() as u32);
        for &b in label {
            f(b as u32);
        }
        f(pdu.len() as u32);
        if !pdu.is_empty() {
            f(pdu[0] as u32);
            f(pdu[pdu.len() - 1] as u32);
            f(pdu[pdu.len() / 2] as u32);
        }
        x
    }
}

#[derive(Clone, Debug, PartialEq, Eq)]
pub struct CrcCall {
    pub pdu: Vec<u8>,
    pub pt: u16,
    pub total: u16,
    pub label: Vec<u8>,
    pub ret: u32,
}

/// Recording wrapper around the crate's DefaultCrc (C12 wiring check).
#[derive(Clone)]
pub struct RecCrc {
    pub log: Arc<Mutex<Vec<CrcCall>>>,
}
impl RecCrc {
    pub fn new() -> RecCrc {
        RecCrc { log: Arc::new(Mutex::new(vec![])) }
    }
    pub fn take(&self) -> Vec<CrcCall> {
        std::mem::take(&mut *self.log.lock().unwrap())
    }
}
impl CrcCalculator for RecCrc {
    fn calculate_crc32(&self, pdu: &[u8], protocol_type: u16, total_length: u16, label: &[u8]) -> u32 {
        let ret = DefaultCrc {}.calculate_crc32(pdu, protocol_type, total_length, label);
        self.log.lock().unwrap().push(CrcCall { pdu: pdu.to_vec(), pt: protocol_type, total: total_length, label: label.to_vec(), ret });
        ret
    }
}

// ---------------------------------------------------------------------------------------
// snapshots
// ---------------------------------------------------------------------------------------

pub type ExtS = (u16, Vec<u8>);

pub fn ext_to_s(e: &Extension) -> ExtS {
    let d = match e.data() {
        ExtensionData::Data2(d) => d.to_vec(),
        ExtensionData::Data4(d) => d.to_vec(),
        ExtensionData::Data6(d) => d.to_vec(),
        ExtensionData::Data8(d) => d.to_vec(),
        ExtensionData::NoData => vec![],
        ExtensionData::MandatoryData(d) => d.clone(),
    };
    (e.id(), d)
}

pub fn exts_to_s(e: &[Extension]) -> Vec<ExtS> {
    e.iter().map(ext_to_s).collect()
}

#[derive(Clone, PartialEq, Eq, Hash, Debug)]
pub struct CtxS {
    pub label: Lbl,
    pub pt: u16,
    pub frag_id: u8,
    pub total_len: u16,
    pub pdu_len: u16,
    pub from_reuse: bool,
    pub exts: Vec<ExtS>,
}

impl CtxS {
    pub fn from_ctx(c: &DecapContext) -> CtxS {
        CtxS {
            label: Lbl::from_label(c.label),
            pt: c.protocol_type,
            frag_id: c.frag_id,
            total_len: c.total_len,
            pdu_len: c.pdu_len,
            from_reuse: c.from_label_reuse,
            exts: exts_to_s(&c.extensions_header),
        }
    }
    pub fn to_ctx(&self) -> DecapContext {
        DecapContext::new(
            self.label.to_label(),
            self.pt,
            self.frag_id,
            self.total_len,
            self.pdu_len,
            self.from_reuse,
            self.exts.iter().map(|(id, d)| Extension::new(*id, d).expect("snapshot extension")).collect(),
        )
    }
}

#[derive(Clone, PartialEq, Eq, Hash, Debug)]
pub struct MemS {
    pub slots: usize,
    pub max_pdu: usize,
    pub free: Vec<Vec<u8>>,
    pub frags: Vec<Option<(CtxS, Vec<u8>)>>,
}

impl MemS {
    pub fn empty(slots: usize, max_pdu: usize) -> MemS {
        MemS { slots, max_pdu, free: vec![], frags: vec![None; slots] }
    }
    pub fn of(m: &SimpleGseMemory) -> MemS {
        let (st, fr, cap, slots, max_pdu) = m.verif_parts();
        // the capacity is whatever the implementation chose (the margin is not part of any property); it only
        // has to be stable: a restored memory must report the same capacity as a freshly constructed one
        if cap < st.len() {
            machinery_error(&format!("SimpleGseMemory free-list capacity {} < {} free buffers", cap, st.len()));
        }
        MemS {
            slots,
            max_pdu,
            free: st.iter().map(|b| b.to_vec()).collect(),
            frags: fr.iter().map(|f| f.as_ref().map(|(c, b)| (CtxS::from_ctx(c), b.to_vec()))).collect(),
        }
    }
    /// free-list capacity as the implementation reports it (the margin is not part of any property)
    pub fn cap_of(m: &SimpleGseMemory) -> usize {
        m.verif_parts().2
    }
    pub fn build(&self) -> SimpleGseMemory {
        let m = SimpleGseMemory::verif_from_parts(
            self.slots,
            self.max_pdu,
            self.free.iter().map(|b| b.clone().into_boxed_slice()).collect(),
            self.frags.iter().map(|f| f.as_ref().map(|(c, b)| (c.to_ctx(), b.clone().into_boxed_slice()))).collect(),
        );
        m
    }
    /// Contexts indexed by aliasing class (frag_id % slots), whatever position the implementation keeps
    /// them at. None in the outer Option if two contexts of one class are stored (contract violation).
    pub fn by_class(&self) -> Option<Vec<Option<(CtxS, Vec<u8>)>>> {
        let mut v: Vec<Option<(CtxS, Vec<u8>)>> = vec![None; self.slots.max(1)];
        for f in self.frags.iter().flatten() {
            let c = f.0.frag_id as usize % self.slots.max(1);
            if v[c].is_some() {
                return None;
            }
            v[c] = Some(f.clone());
        }
        Some(v)
    }
    /// the context stored for the aliasing class of `id`, if any
    pub fn ctx_in_class(&self, id: u8) -> Option<&(CtxS, Vec<u8>)> {
        let n = self.slots.max(1);
        self.frags.iter().flatten().find(|f| f.0.frag_id as usize % n == id as usize % n)
    }
    /// replace (or insert) the context of the class of `ctx.frag_id`
    pub fn set_ctx(&mut self, ctx: CtxS, buf: Vec<u8>) {
        let n = self.slots.max(1);
        let class = ctx.frag_id as usize % n;
        if let Some(i) = self.frags.iter().position(|f| f.as_ref().map(|f| f.0.frag_id as usize % n == class).unwrap_or(false)) {
            self.frags[i] = Some((ctx, buf));
        } else {
            // position of the bundled implementation; a restore hook of another layout re-places it
            self.frags[class] = Some((ctx, buf));
        }
    }
    /// remove the context of the class of `id`
    pub fn take_class(&mut self, id: u8) -> Option<(CtxS, Vec<u8>)> {
        let n = self.slots.max(1);
        let i = self.frags.iter().position(|f| f.as_ref().map(|f| f.0.frag_id as usize % n == id as usize % n).unwrap_or(false))?;
        self.frags[i].take()
    }
    /// all buffer lengths held by the memory (free list then contexts)
    pub fn buffer_lens(&self) -> Vec<usize> {
        let mut v: Vec<usize> = self.free.iter().map(|b| b.len()).collect();
        v.extend(self.frags.iter().flatten().map(|f| f.1.len()));
        v
    }
    pub fn n_buffers(&self) -> usize {
        self.free.len() + self.frags.iter().flatten().count()
    }
}

#[derive(Clone, PartialEq, Eq, Hash, Debug)]
pub struct RxS {
    pub last: Option<Lbl>,
    pub mem: MemS,
}

impl RxS {
    pub fn new(slots: usize, max_pdu: usize, buffers: &[usize]) -> RxS {
        let mut m = MemS::empty(slots, max_pdu);
        for &b in buffers {
            m.free.push(vec![0u8; b]);
        }
        RxS { last: None, mem: m }
    }
    pub fn build<C: CrcCalculator, M: MandatoryHeaderExtensionManager>(&self, crc: C, mgr: M) -> Decapsulator<SimpleGseMemory, C, M> {
        let mut d = Decapsulator::new(self.mem.build(), crc, mgr);
        d.verif_set_last_label(self.last.map(|l| l.to_label()));
        d
    }
    pub fn of<C: CrcCalculator, M: MandatoryHeaderExtensionManager>(d: &Decapsulator<SimpleGseMemory, C, M>) -> RxS {
        RxS { last: d.verif_last_label().map(Lbl::from_label), mem: MemS::of(&d.memory) }
    }
    /// restore fidelity check: rebuild and re-snapshot must be the identity
    pub fn check_fidelity(&self) {
        let d = self.build(FastCrc, TableMgr::none());
        let again = RxS::of(&d);
        if &again != self {
            machinery_error("restore fidelity: snapshot(restore(s)) != s");
        }
    }
}

pub fn machinery_error(msg: &str) -> ! {
    eprintln!("MACHINERY-ERROR: {}", msg);
    std::process::exit(2);
}

// ---------------------------------------------------------------------------------------
// observable result of one decap call
// ---------------------------------------------------------------------------------------

#[derive(Clone, PartialEq, Eq, Hash, Debug)]
pub struct MetaS {
    pub pdu_len: usize,
    pub pt: u16,
    pub label: Lbl,
    pub exts: Vec<ExtS>,
}

#[derive(Clone, PartialEq, Eq, Hash, Debug)]
pub enum DecapOut {
    Completed { buf: Vec<u8>, meta: MetaS, consumed: usize },
    Fragmented { meta: MetaS, consumed: usize },
    Padding { consumed: usize },
    /// error kind (Debug of the variant without payload), buffer handed back inside the error, consumed
    Err { kind: String, handed_back: Option<Vec<u8>>, consumed: usize },
    Panic(String),
}

impl DecapOut {
    pub fn consumed(&self) -> Option<usize> {
        match self {
            DecapOut::Completed { consumed, .. } | DecapOut::Fragmented { consumed, .. } | DecapOut::Padding { consumed } | DecapOut::Err { consumed, .. } => Some(*consumed),
            DecapOut::Panic(_) => None,
        }
    }
    pub fn class(&self) -> String {
        match self {
            DecapOut::Completed { .. } => "Completed".into(),
            DecapOut::Fragmented { .. } => "Fragmented".into(),
            DecapOut::Padding { .. } => "Padding".into(),
            DecapOut::Err { kind, .. } => format!("Err({})", kind),
            DecapOut::Panic(_) => "PANIC".into(),
        }
    }
    pub fn brief(&self) -> String {
        match self {
            DecapOut::Completed { buf, meta, consumed } => format!(
                "Ok(Completed pdu={} len={} pt={:#06x} label={} exts={:?}, consumed={})",
                hexs(&buf[..meta.pdu_len.min(buf.len())]),
                meta.pdu_len,
                meta.pt,
                meta.label.short(),
                meta.exts,
                consumed
            ),
            DecapOut::Fragmented { meta, consumed } => format!("Ok(Fragmented pt={:#06x} label={} exts={:?}, consumed={})", meta.pt, meta.label.short(), meta.exts, consumed),
            DecapOut::Padding { consumed } => format!("Ok(Padding, consumed={})", consumed),
            DecapOut::Err { kind, handed_back, consumed } => format!("Err({}{}, consumed={})", kind, handed_back.as_ref().map(|b| format!(" [buffer of {} handed back]", b.len())).unwrap_or_default(), consumed),
            DecapOut::Panic(p) => format!("PANIC at {}", p),
        }
    }
}

pub fn mem_err_kind(e: &DecapMemoryError) -> (String, Option<Vec<u8>>) {
    match e {
        DecapMemoryError::StorageOverflow(b) => ("StorageOverflow".into(), Some(b.to_vec())),
        DecapMemoryError::BufferTooSmall(b) => ("BufferTooSmall".into(), Some(b.to_vec())),
        DecapMemoryError::StorageUnderflow => ("StorageUnderflow".into(), None),
        DecapMemoryError::UndefinedId => ("UndefinedId".into(), None),
        DecapMemoryError::MemoryCorrupted => ("MemoryCorrupted".into(), None),
    }
}

pub fn decap_err_kind(e: &DecapError) -> (String, Option<Vec<u8>>) {
    match e {
        DecapError::ErrorMemory(m) => {
            let (k, b) = mem_err_kind(m);
            (format!("ErrorMemory:{}", k), b)
        }
        other => (format!("{:?}", other), None),
    }
}

pub fn observe(r: Result<Result<(DecapStatus, usize), (DecapError, usize)>, Panicked>) -> DecapOut {
    match r {
        Err(p) => DecapOut::Panic(p.0),
        Ok(Ok((st, n))) => match st {
            DecapStatus::CompletedPkt(buf, md) => DecapOut::Completed {
                buf: buf.to_vec(),
                meta: MetaS { pdu_len: md.pdu_len(), pt: md.protocol_type(), label: Lbl::from_label(md.label()), exts: exts_to_s(md.extensions()) },
                consumed: n,
            },
            DecapStatus::FragmentedPkt(md) => DecapOut::Fragmented {
                meta: MetaS { pdu_len: md.pdu_len(), pt: md.protocol_type(), label: Lbl::from_label(md.label()), exts: exts_to_s(md.extensions()) },
                consumed: n,
            },
            DecapStatus::Padding => DecapOut::Padding { consumed: n },
        },
        Ok(Err((e, n))) => {
            let (kind, hb) = decap_err_kind(&e);
            DecapOut::Err { kind, handed_back: hb, consumed: n }
        }
    }
}

/// run the real decap under catch_unwind and observe
pub fn do_decap<C: CrcCalculator, M: MandatoryHeaderExtensionManager>(d: &mut Decapsulator<SimpleGseMemory, C, M>, bytes: &[u8]) -> DecapOut {
    observe(catch(|| d.decap(bytes)))
}

/// one step on a snapshot: restore, decap, snapshot. A panic leaves the receiver in whatever
/// state the unwinding left it (it is still a valid Rust object); we snapshot that too.
pub fn step_decap<C: CrcCalculator + Clone, M: MandatoryHeaderExtensionManager + Clone>(s: &RxS, crc: &C, mgr: &M, bytes: &[u8]) -> (DecapOut, RxS) {
    let mut d = s.build(crc.clone(), mgr.clone());
    let out = do_decap(&mut d, bytes);
    let after = RxS::of(&d);
    (out, after)
}
