//! C07 — concurrent reassemblies are isolated under every interleaving.
//! State = (next packet index per train, real receiver snapshot). Because identical
//! (indices, snapshot) pairs are merged, the search covers ALL order-preserving merges of the
//! trains with strays inserted at every position, any number of times.

use crate::common::*;
use crate::explore::*;
use crate::refm::{ref_train, Desc};
use crate::report::{Acc, Report, Tier};
use crate::rx::*;
use dvb_gse_rust::crc::DefaultCrc;
use serde_json::{json, Value};
use std::collections::HashMap;

#[derive(Clone, Debug)]
pub struct Train {
    pub id: u8,
    pub label: Lbl,
    pub pt: u16,
    pub pdu: Vec<u8>,
    pub pkts: Vec<Vec<u8>>,
    /// header extensions carried by the first fragment (part of the PDU's own metadata)
    pub exts: Vec<ExtS>,
}

#[derive(Clone, Debug, PartialEq, Eq, Hash)]
pub struct St {
    pub idx: Vec<u8>,
    pub rx: RxS,
    /// label carried by the nearest preceding start/complete packet (what a re-use label refers to)
    pub near: Option<Lbl>,
    /// label the receiver is OBLIGED to still resolve a re-use label to: that of the nearest preceding start/complete
    /// packet if it was accepted and no padding (end of frame) came since. `near` says what a resolution MAY yield.
    pub obliged: Option<Lbl>,
    /// for trains whose first fragment carries a re-use label: the label it referred to when it was (re)started
    pub resolved: Vec<Option<Lbl>>,
}

#[derive(Clone, Debug, PartialEq, Eq)]
pub enum Op {
    Advance(usize),
    Restart(usize),
    Stray(usize),
}

#[derive(Clone, Debug)]
pub struct Stray {
    pub name: String,
    pub bytes: Vec<u8>,
    /// Some(payload) when the stray is a complete packet that must be delivered
    pub delivers: Option<(Vec<u8>, Lbl, u16)>,
    /// duplicate end fragment of train i: only offered while train i is not in progress
    pub only_when_idle: Option<usize>,
    /// first fragment of a foreign PDU claiming the slot of train i (may evict train i only)
    pub evicts: Option<usize>,
    /// complete packet with a re-use label: if delivered, its label must be the one of the nearest
    /// preceding start/complete packet
    pub reuse_complete: bool,
}

pub struct Sys {
    pub slots: usize,
    pub trains: Vec<Train>,
    pub strays: Vec<Stray>,
    pub storage: usize,
}

/// reassembly data kept for the aliasing class of `id` (layout independent)
fn slot_view(rx: &RxS, id: u8) -> Option<(CtxS, Vec<u8>)> {
    rx.mem.ctx_in_class(id).map(|(c, b)| (c.clone(), b[..(c.pdu_len as usize).min(b.len())].to_vec()))
}

impl Sys {
    pub fn new(slots: usize, shapes: &[(usize, usize)], with_evictor: bool) -> Sys {
        Sys::new_with_reuse(slots, shapes, with_evictor, &[])
    }
    pub fn new_with_reuse(slots: usize, shapes: &[(usize, usize)], with_evictor: bool, reuse: &[usize]) -> Sys {
        Sys::new_full(slots, shapes, with_evictor, reuse, &[])
    }
    /// `reuse`: indices of trains whose first fragment carries a re-use label (sent right after a start/complete
    /// packet with the same label)
    /// `with_ext`: indices of trains whose first fragment carries one optional header extension
    pub fn new_full(slots: usize, shapes: &[(usize, usize)], with_evictor: bool, reuse: &[usize], with_ext: &[usize]) -> Sys {
        // shapes: (pdu length, number of fragments)
        let labels = [L6A, L3A, Lbl::Bcast, L6B, L3B];
        let mut trains = vec![];
        for (i, &(plen, nfrag)) in shapes.iter().enumerate() {
            let pd = pdu(plen, (i % 4) as u8);
            let base = plen / nfrag;
            let cuts: Vec<usize> = (0..nfrag - 1).map(|k| if k == 0 { base.max(1) } else { base.max(1) }).collect();
            let l = if reuse.contains(&i) { Lbl::ReUse } else { labels[i % labels.len()] };
            let pt = [0x0800u16, 0x86DD, 0xFFFF, 0x0600][i % 4];
            // every second train uses an id >= the number of slots (same slot, i + n), so that both
            // "high id in progress, low aliasing stray" and the reverse occur
            let id = if i % 2 == 1 { (i + slots) as u8 } else { i as u8 };
            let mut pkts = ref_train(l, pt, id, &pd, &cuts);
            let mut exts: Vec<ExtS> = vec![];
            if with_ext.contains(&i) {
                // same train, the first fragment carrying the optional extension 0x0202 (2 data bytes) in front of the
                // protocol type; total length and CRC do not cover extension bytes
                let total = (pd.len() + 2 + l.wire_len()) as u16;
                let mut d = Desc::first(l, 0x0202, id, total, &pd[..cuts[0].min(pd.len())]);
                d.ext_bytes = vec![0xE1, 0xE2, (pt >> 8) as u8, pt as u8];
                pkts[0] = d.print();
                exts.push((0x0202, vec![0xE1, 0xE2]));
            }
            trains.push(Train { id, label: l, pt, pdu: pd, pkts, exts });
        }
        let n = slots as u8;
        let k = shapes.len() as u8; // maps to the first slot no train uses (when slots > number of trains)
        let mut strays = vec![];
        let mk = |name: &str, bytes: Vec<u8>| Stray { name: name.to_string(), bytes, delivers: None, only_when_idle: None, evicts: None, reuse_complete: false };
        for (ti, t) in trains.iter().enumerate() {
            // aliases above (id+n, id+2n) and below (id-n, id mod n)
            let mut aliases: Vec<u8> = vec![t.id.wrapping_add(n), t.id.wrapping_add(n.wrapping_mul(2))];
            if t.id >= n {
                aliases.push(t.id - n);
                aliases.push(t.id % n);
            }
            aliases.sort();
            aliases.dedup();
            for (m, alias) in aliases.into_iter().enumerate() {
                if (alias as usize) % slots == (t.id as usize) % slots && alias != t.id && !trains.iter().any(|x| x.id == alias) {
                    let lowhigh = if alias < t.id { "low" } else { "high" };
                    strays.push(mk(&format!("inter-alias-{}{}x{}", lowhigh, t.id, m), Desc::inter(alias, &[0xEE, 0xEF]).print()));
                    strays.push(mk(&format!("end-alias-{}{}x{}", lowhigh, t.id, m), Desc::end(alias, &[0xED], 0x01020304).print()));
                }
            }
            let mut s = mk(&format!("dup-end-{}", t.id), t.pkts.last().unwrap().clone());
            s.only_when_idle = Some(ti);
            strays.push(s);
        }
        if slots > shapes.len() {
            strays.push(mk("inter-empty-slot", Desc::inter(k, &[0xEC]).print()));
            strays.push(mk("end-empty-slot", Desc::end(k, &[0xEB], 0).print()));
        }
        let mut c = mk("complete-3B", Desc::complete(L3A, 0x0800, &[0x71, 0x72]).print());
        c.delivers = Some((vec![0x71, 0x72], L3A, 0x0800));
        strays.push(c);
        let mut c = mk("complete-bcast", Desc::complete(Lbl::Bcast, 0x86DD, &[0x73]).print());
        c.delivers = Some((vec![0x73], Lbl::Bcast, 0x86DD));
        strays.push(c);
        let mut c = mk("complete-reuse", Desc::complete(Lbl::ReUse, 0x0800, &[0x74, 0x75]).print());
        c.reuse_complete = true;
        strays.push(c);
        strays.push(mk("padding", vec![0, 0, 0]));
        strays.push(mk("inter-oversize-alias", Desc::inter(trains[0].id.wrapping_add(n), &[0xEA; 40]).print()));
        if with_evictor {
            let alias = trains[0].id.wrapping_add(n);
            let mut s = mk("first-foreign-alias0", Desc::first(L3B, 0x0800, alias, 9, &[0xE1, 0xE2]).print());
            s.evicts = Some(0);
            strays.push(s);
        }
        let storage = shapes.iter().map(|x| x.0).max().unwrap().max(4);
        Sys { slots, trains, strays, storage }
    }
}

impl System for Sys {
    type State = St;
    type Op = Op;
    fn init(&self) -> Vec<St> {
        let bufs: Vec<usize> = (0..self.trains.len() + 1).map(|_| self.storage).collect();
        vec![St { idx: vec![0; self.trains.len()], rx: RxS::new(self.slots, self.storage, &bufs), near: None, obliged: None, resolved: vec![None; self.trains.len()] }]
    }
    fn ops(&self, s: &St) -> Vec<Op> {
        let mut v = vec![];
        for (i, t) in self.trains.iter().enumerate() {
            // 255 = evicted by a foreign first fragment: the train can only restart
            // a first fragment with a re-use label is only sent when a start/complete packet precedes it in the frame
            let can_start = t.label != Lbl::ReUse || s.obliged.is_some();
            if s.idx[i] != 255 && (s.idx[i] as usize) < t.pkts.len() && (s.idx[i] > 0 || can_start) {
                v.push(Op::Advance(i));
            }
            if (s.idx[i] == 255 || (s.idx[i] > 0 && (s.idx[i] as usize) < t.pkts.len())) && can_start {
                v.push(Op::Restart(i));
            }
        }
        for (j, st) in self.strays.iter().enumerate() {
            if let Some(i) = st.only_when_idle {
                let ix = s.idx[i] as usize;
                if !(ix == 0 || ix == self.trains[i].pkts.len()) {
                    continue;
                }
            }
            if let Some(i) = st.evicts {
                let ix = s.idx[i] as usize;
                // offered while the evicted train is idle or in progress
                if ix == 255 {
                    continue;
                }
            }
            v.push(Op::Stray(j));
        }
        v
    }
    fn step(&self, s: &St, op: &Op, acc: &mut Acc) -> StepOut<St> {
        let mut viols: Vec<(String, String)> = vec![];
        let mut idx = s.idx.clone();
        acc.calls += 1;
        acc.compared += 1;
        let (bytes, who): (&[u8], Option<usize>) = match op {
            Op::Advance(i) => (&self.trains[*i].pkts[s.idx[*i] as usize], Some(*i)),
            Op::Restart(i) => (&self.trains[*i].pkts[0], Some(*i)),
            Op::Stray(j) => (&self.strays[*j].bytes, None),
        };
        // interleaved packets arrive inside frames: every packet is presented followed by further (non-padding)
        // bytes, and a receiver walking the frame by consumed lengths must find the next packet right behind it
        let mut framed = bytes.to_vec();
        framed.extend_from_slice(&[0xA5, 0x5A, 0xC3]);
        let (out, mut rx2) = step_decap(&s.rx, &DefaultCrc {}, &TableMgr::none(), &framed);
        let is_padding = matches!(op, Op::Stray(j) if self.strays[*j].name == "padding");
        if !is_padding {
            if let Some(c) = out.consumed() {
                if c != bytes.len() {
                    let what = match op {
                        Op::Stray(k) => format!("stray:{}", self.strays[*k].name.split(|c: char| c.is_ascii_digit()).next().unwrap_or("").trim_end_matches('-')),
                        Op::Advance(_) => "train-packet".to_string(),
                        Op::Restart(_) => "restart".to_string(),
                    };
                    viols.push((format!("C07|swallows-following-packets|{}|{}", what, out.class()), format!("{:?} ({}) inside a frame consumed {} bytes instead of its own {}: the packets that follow it in the frame (other PDUs' fragments) are never seen", op, out.class(), c, bytes.len())));
                }
            }
        }
        let opn = match op {
            Op::Advance(_) => "advance".to_string(),
            Op::Restart(_) => "restart".to_string(),
            Op::Stray(j) => format!("stray:{}", self.strays[*j].name.split(|c: char| c.is_ascii_digit()).next().unwrap_or("").trim_end_matches('-')),
        };
        acc.outcome(&format!("{}:{}", opn, out.class()));
        if let DecapOut::Panic(p) = &out {
            viols.push((format!("C07|panic|{}", Panicked(p.clone()).coarse()), format!("{:?} panics at {}", op, p)));
            return StepOut { next: None, viols };
        }
        // ghost: label of the nearest preceding start/complete packet
        let mut near = s.near;
        let mut obliged = s.obliged;
        let mut resolved = s.resolved.clone();
        let starts = match op {
            Op::Advance(i) if s.idx[*i] == 0 => Some(*i),
            Op::Restart(i) => Some(*i),
            _ => None,
        };
        if let Some(i) = starts {
            if self.trains[i].label == Lbl::ReUse {
                // refers to the nearest preceding start/complete packet, and is itself a start packet with that label
                resolved[i] = s.obliged;
            } else {
                near = if self.trains[i].label.is_addr() { Some(self.trains[i].label) } else { None };
                obliged = near;
            }
        }
        match op {
            Op::Stray(j) => {
                let st = &self.strays[*j];
                if st.name == "padding" {
                    // the rest of the frame is padding: the receiver may forget (the crate does), it need not
                    obliged = None;
                }
                if let Some((_, l, _)) = &st.delivers {
                    near = if l.is_addr() { Some(*l) } else { None };
                    obliged = near;
                }
                if st.evicts.is_some() {
                    near = Some(L3B);
                    obliged = near;
                }
            }
            _ => {}
        }
        // isolation: reassembly data of every other train unchanged
        let evicted: Option<usize> = if let Op::Stray(j) = op { self.strays[*j].evicts } else { None };
        for (j, t) in self.trains.iter().enumerate() {
            if Some(j) == who || Some(j) == evicted {
                continue;
            }
            if slot_view(&s.rx, t.id) != slot_view(&rx2, t.id) {
                let what = match op {
                    Op::Stray(k) => format!("stray packet {} ({})", self.strays[*k].name, out.class()),
                    Op::Advance(i) => format!("packet #{} of train {}", s.idx[*i], i),
                    Op::Restart(i) => format!("restart of train {}", i),
                };
                let alias = if let Op::Stray(k) = op { if self.strays[*k].name.contains("alias") { "aliasing-id" } else { "other" } } else { "train" };
                viols.push((format!("C07|isolation|{}|{}|{}", opn, out.class(), alias), format!("{} altered the reassembly in progress of train {} (frag id {}): before {:?}, after {:?}", what, j, t.id, slot_view(&s.rx, t.id), slot_view(&rx2, t.id))));
            }
        }
        match op {
            Op::Advance(i) | Op::Restart(i) => {
                let t = &self.trains[*i];
                let k = if matches!(op, Op::Restart(_)) { 0 } else { s.idx[*i] as usize };
                let last = k + 1 == t.pkts.len();
                let want_label = if t.label == Lbl::ReUse { resolved[*i].unwrap_or(Lbl::ReUse) } else { t.label };
                match &out {
                    DecapOut::Fragmented { meta, consumed } if !last => {
                        // (the extension list is judged at delivery only: the statement speaks of the delivered PDU's metadata)
                        if meta.label != want_label || meta.pt != t.pt || *consumed != bytes.len() {
                            viols.push(("C07|fragment-metadata".into(), format!("train {} packet #{}: {}", i, k, out.brief())));
                        }
                        idx[*i] = (k + 1) as u8;
                    }
                    DecapOut::Completed { buf, meta, consumed } if last => {
                        if meta.pdu_len != t.pdu.len() || buf[..t.pdu.len().min(buf.len())] != t.pdu[..] || meta.label != want_label || meta.pt != t.pt || meta.exts != t.exts || *consumed != bytes.len() {
                            viols.push(("C07|delivered-differs".into(), format!("train {} (frag id {}) delivered with wrong bytes or metadata: {} (expected pdu {} label {} pt {:#06x})", i, t.id, out.brief(), hex(&t.pdu), want_label.short(), t.pt)));
                        }
                        idx[*i] = t.pkts.len() as u8;
                        rx2.mem.free.push(vec![0u8; buf.len()]); // the caller re-provisions the delivered buffer
                    }
                    other => {
                        viols.push((format!("C07|train-packet-refused|{}|{}", if last { "end" } else if k == 0 { "first" } else { "intermediate" }, other.class()), format!("train {} (frag id {}) packet #{} of {} in its own order -> {} ; indices {:?}", i, t.id, k, t.pkts.len(), other.brief(), s.idx)));
                        return StepOut { next: None, viols };
                    }
                }
            }
            Op::Stray(j) => {
                let st = &self.strays[*j];
                if st.reuse_complete {
                    if let DecapOut::Completed { buf, meta, .. } = &out {
                        if Some(meta.label) != s.near {
                            viols.push(("C07|reuse-complete-wrong-label".into(), format!("complete packet with a re-use label delivered with label {} but the nearest preceding start/complete packet carried {:?} (indices {:?})", meta.label.short(), s.near.map(|l| l.short()), s.idx)));
                        }
                        rx2.mem.free.push(vec![0u8; buf.len()]);
                    }
                }
                match (&st.delivers, &out) {
                    _ if st.reuse_complete => {}
                    (Some((pd, l, pt)), DecapOut::Completed { buf, meta, .. }) => {
                        if meta.pdu_len != pd.len() || buf[..pd.len()] != pd[..] || meta.label != *l || meta.pt != *pt {
                            viols.push(("C07|complete-stray-differs".into(), format!("stray complete packet delivered as {}", out.brief())));
                        }
                        rx2.mem.free.push(vec![0u8; buf.len()]);
                    }
                    (Some(_), other) => {
                        viols.push((format!("C07|complete-stray-refused|{}", other.class()), format!("stray complete packet -> {}", other.brief())));
                    }
                    (None, DecapOut::Completed { .. }) => {
                        viols.push((format!("C07|stray-delivers|{}", st.name.split('-').next().unwrap()), format!("stray packet {} yields a delivered PDU: {}", st.name, out.brief())));
                        return StepOut { next: None, viols };
                    }
                    _ => {}
                }
                if let Some(e) = st.evicts {
                    if matches!(out, DecapOut::Fragmented { .. }) {
                        // the foreign first fragment now owns the slot; train e lost its reassembly
                        if idx[e] > 0 && (idx[e] as usize) < self.trains[e].pkts.len() {
                            idx[e] = 255;
                        }
                        // drop the foreign context again so the space stays finite: the owner of the
                        // slot is irrelevant for the other trains (isolation was checked above)
                        let tid = self.trains[e].id;
                        if let Some((c, b)) = rx2.mem.take_class(tid) {
                            if c.frag_id == tid {
                                rx2.mem.set_ctx(c, b);
                            } else {
                                rx2.mem.free.push(vec![0u8; b.len()]);
                            }
                        }
                    }
                } else {
                    // strays never change the memory (label memory is not constrained here)
                    let mut a = s.rx.mem.clone();
                    let mut b = rx2.mem.clone();
                    a.free.sort();
                    b.free.sort();
                    for m in [&mut a, &mut b] {
                        for f in m.free.iter_mut() {
                            f.iter_mut().for_each(|x| *x = 0);
                        }
                    }
                    if a != b {
                        viols.push((format!("C07|stray-changes-memory|{}|{}", st.name.split(|c: char| c.is_ascii_digit()).next().unwrap_or("").trim_end_matches('-'), out.class()), format!("stray packet {} ({}) changed the receiver memory: before {:?} after {:?}", st.name, out.class(), s.rx.mem, rx2.mem)));
                    }
                }
            }
        }
        // normalise free buffers (contents unobservable) and keep them sorted by length
        for f in rx2.mem.free.iter_mut() {
            f.iter_mut().for_each(|x| *x = 0);
        }
        for f in rx2.mem.frags.iter_mut().flatten() {
            let n = (f.0.pdu_len as usize).min(f.1.len());
            f.1[n..].iter_mut().for_each(|x| *x = 0);
        }
        StepOut { next: Some(St { idx, rx: rx2, near, obliged, resolved }), viols }
    }
    fn op_json(&self, op: &Op) -> Value {
        match op {
            Op::Advance(i) => json!({"advance_train": i}),
            Op::Restart(i) => json!({"restart_train": i}),
            Op::Stray(j) => json!({"stray": self.strays[*j].name, "bytes": hex(&self.strays[*j].bytes)}),
        }
    }
}

/// rebuild a configuration from its evidence name "slots=N trains=[(a, b), ...] evictor=bool"
pub fn sys_from_name(name: &str) -> Option<Sys> {
    let slots: usize = name.strip_prefix("slots=")?.split(' ').next()?.parse().ok()?;
    let tr = &name[name.find('[')? + 1..name.find(']')?];
    let nums: Vec<usize> = tr.split(|c: char| !c.is_ascii_digit()).filter(|x| !x.is_empty()).filter_map(|x| x.parse().ok()).collect();
    let shapes: Vec<(usize, usize)> = nums.chunks(2).filter(|c| c.len() == 2).map(|c| (c[0], c[1])).collect();
    let ev = name.contains("evictor=true");
    let reuse: Vec<usize> = match name.find("reuse=[") {
        Some(k) => name[k + 7..].split(']').next().unwrap_or("").split(',').filter_map(|x| x.trim().parse().ok()).collect(),
        None => vec![],
    };
    let ext: Vec<usize> = match name.find("ext=[") {
        Some(k) => name[k + 5..].split(']').next().unwrap_or("").split(',').filter_map(|x| x.trim().parse().ok()).collect(),
        None => vec![],
    };
    Some(Sys::new_full(slots, &shapes, ev, &reuse, &ext))
}

pub fn run(tier: Tier) -> i32 {
    let rep = Report::new("C07", tier);
    rep.set_rule("for each configuration (trains = (PDU length, fragments) on fragment ids 0..k-1, memory of n slots) breadth-first search to closure over advance(i) / restart(i) / stray(j) with state = (next index per train, real receiver snapshot); strays: intermediate/end of ids aliasing each train's slot (id+n, id+2n), of an id mapping to an empty slot, duplicate end of an idle train, complete packets (3-byte, broadcast and re-use label, the latter checked against the nearest preceding start/complete label), padding, oversize aliasing intermediate, (some configurations) a foreign first fragment claiming an aliasing slot; in some configurations trains whose first fragment carries a re-use label, offered only when a start/complete packet precedes them in the frame (padding ends the frame) and expected under the label of that packet; in some configurations trains whose first fragment carries a header extension (part of the delivered metadata); oracle: delivery exactly at the own end fragment with own bytes/metadata, no other train's reassembly data altered by any op, strays leave the memory unchanged, every packet is presented followed by three non-padding bytes and must consume exactly its own length; distinct = (op kind, outcome); number of distinct receiver memories per index vector reported. Second model (closure): three configurations in which every packet is produced by the REAL encapsulator at the moment the interleaving asks for it (encap / encap_ext first fragments, encap_frag continuations, complete packets with the trains' labels and refused calls in between; trains share labels, so re-use substitution depends on the interleaving) and fed at once to the real receiver, plus receiver-side strays of unknown ids; same delivery oracle incl. the extension list");
    rep.assume("trains are built by the reference printer (independent of the crate's encapsulator); PDUs of 4..12 bytes, 2..5 fragments");
    let mut configs: Vec<(usize, Vec<(usize, usize)>, bool, Vec<usize>, Vec<usize>)> = vec![
        (2, vec![(4, 2), (6, 3)], false, vec![], vec![]),
        (3, vec![(4, 2), (6, 3)], false, vec![], vec![]),
        (2, vec![(6, 3), (8, 4)], true, vec![], vec![]),
        (3, vec![(4, 2), (5, 2), (6, 3)], false, vec![], vec![]),
        (4, vec![(4, 2), (6, 3), (8, 4)], false, vec![], vec![]),
    ];
    configs.push((4, vec![(4, 2), (6, 3), (8, 4), (10, 5)], false, vec![], vec![]));
    configs.push((5, vec![(4, 2), (6, 3), (8, 4), (10, 5)], true, vec![], vec![]));
    configs.push((3, vec![(10, 5), (10, 5), (12, 4)], true, vec![], vec![]));
    configs.push((5, vec![(4, 2), (6, 3), (8, 4), (10, 5), (12, 4)], false, vec![], vec![]));
    // trains whose first fragment carries a re-use label (resolved against the nearest preceding start/complete packet)
    configs.push((3, vec![(4, 2), (6, 3)], false, vec![1], vec![]));
    configs.push((2, vec![(6, 3), (8, 4)], true, vec![0], vec![]));
    configs.push((3, vec![(4, 2), (5, 2), (6, 3)], false, vec![0, 2], vec![]));
    // trains whose first fragment carries a header extension (2 and >= 3 fragments), alone and next to a re-use train
    configs.push((2, vec![(6, 3), (4, 2)], false, vec![], vec![0, 1]));
    configs.push((3, vec![(8, 4), (6, 3), (4, 2)], true, vec![1], vec![0, 1]));
    if tier.thorough() {
        configs.push((4, vec![(4, 2), (6, 3), (8, 4), (10, 5)], true, vec![1, 3], vec![]));
        configs.push((4, vec![(8, 4), (8, 4), (8, 4), (8, 4)], true, vec![], vec![]));
        configs.push((2, vec![(12, 4), (12, 6)], true, vec![], vec![]));
        configs.push((6, vec![(4, 2), (4, 2), (6, 3), (6, 3), (6, 2), (8, 4)], true, vec![], vec![]));
        configs.push((8, vec![(4, 2), (6, 3), (6, 2), (8, 4), (9, 3), (10, 5), (12, 6)], false, vec![], vec![]));
    }
    for (ci, (slots, shapes, ev, reuse, ext)) in configs.iter().enumerate() {
        let sys = Sys::new_full(*slots, shapes, *ev, reuse, ext);
        let ex = explore(&sys, &Limits { max_states: 3_000_000, max_depth: 10_000 }, &rep, &format!("slots={} trains={:?} evictor={} reuse={:?} ext={:?}", slots, shapes, ev, reuse, ext));
        if !ex.closed {
            rep.cap("a configuration did not close");
        }
        // distinct receiver memories per index vector
        let mut per: HashMap<Vec<u8>, std::collections::HashSet<MemS>> = HashMap::new();
        for s in &ex.states {
            let mut m = s.rx.mem.clone();
            m.free.sort();
            per.entry(s.idx.clone()).or_default().insert(m);
        }
        let max_mem = per.values().map(|v| v.len()).max().unwrap_or(0);
        let all_done: Vec<u8> = sys.trains.iter().map(|t| t.pkts.len() as u8).collect();
        rep.part(json!({"config": ci, "index_vectors": per.len(), "max_distinct_receiver_memories_per_index_vector": max_mem, "all_trains_delivered_state_reached": per.contains_key(&all_done)}));
        if !per.contains_key(&all_done) && rep.n_viol_sigs() == 0 {
            rep.violation("C07|vacuity|never-all-delivered", ci as u64, || ("no interleaving delivers all trains".into(), json!({"config": ci})));
        }
        if max_mem > 1 && !*ev && reuse.is_empty() {
            rep.violation("C07|receiver-state-depends-on-interleaving", ci as u64, || (format!("config {}: the same progress of all trains is reached with {} different receiver memories depending on the interleaving", ci, max_mem), json!({"config": ci})));
        }
        let i = ex.states.len() - 1;
        rep.sample(ci as u64, || json!({"config": format!("slots={} trains={:?}", slots, shapes), "states": ex.states.len(), "one_interleaving": ex.path(i).iter().map(|o| sys.op_json(o)).collect::<Vec<_>>()}));
    }
    run_live(&rep);
    rep.finish(true)
}

// ---------------------------------------------------------------------------------------
// Second model: the packets come from the REAL encapsulator, in the order of the interleaving
// ---------------------------------------------------------------------------------------
//
// With reference-printed trains the bytes of a train do not depend on the interleaving. A real sender's do: whether a
// first fragment carries its label or a re-use label depends on which start/complete packet it emitted just before. This
// model keeps the real Encapsulator in the state, produces every packet at the moment the interleaving asks for it
// (encap / encap_ext for first fragments, encap_frag for the rest, encap for complete packets in between) and feeds it to
// the real receiver at once; strays of unknown ids are fed to the receiver only.

use crate::tx::*;
use dvb_gse_rust::gse_encap::Encapsulator;
use std::hash::{Hash, Hasher};

#[derive(Clone, Debug)]
pub struct LTrain {
    pub id: u8,
    pub label: Lbl,
    pub pt: u16,
    pub pdu: Vec<u8>,
    pub exts: Vec<ExtS>,
    pub first_buf: usize,
    pub next_buf: usize,
}

#[derive(Clone, Debug)]
pub struct LSt {
    pub enc: Encapsulator<DefaultCrc>,
    pub key: String,
    /// per train: None = not started, Some(ctx) = in progress; done[i] set when delivered
    pub ctx: Vec<Option<Ctx>>,
    pub done: Vec<bool>,
    pub rx: RxS,
}
impl PartialEq for LSt {
    fn eq(&self, o: &LSt) -> bool {
        self.key == o.key && self.ctx == o.ctx && self.done == o.done && self.rx == o.rx
    }
}
impl Eq for LSt {}
impl Hash for LSt {
    fn hash<H: Hasher>(&self, h: &mut H) {
        self.key.hash(h);
        self.ctx.hash(h);
        self.done.hash(h);
        self.rx.hash(h);
    }
}

#[derive(Clone, Debug, PartialEq, Eq)]
pub enum LOp {
    Advance(usize),
    /// a complete packet with the label of train i, from the same sender
    Complete(usize),
    /// rejected continuation packet of an unknown id, receiver side only (0: intermediate, 1: end)
    Stray(u8),
    /// an encap call with the label of train i that the sender refuses (3-byte buffer): nothing goes on the wire
    Refused(usize),
}

pub struct LSys {
    pub slots: usize,
    pub trains: Vec<LTrain>,
}

impl LSys {
    pub fn new(variant: usize) -> LSys {
        let ext = vec![(0x0202u16, vec![0xE1u8, 0xE2])];
        // first buffer = first-fragment header (with the full label) + 3, at least 13 bytes (the size C02 promises is
        // accepted whatever the label), plus the extension: the PDUs (>= 16 bytes) never fit a complete packet in it, with
        // or without re-use substitution
        let t = |id: u8, label: Lbl, n: usize, with_ext: bool, next_buf: usize| LTrain { id, label, pt: 0x0800, pdu: pdu(n, (id % 4) as u8), exts: if with_ext { ext.clone() } else { vec![] }, first_buf: (7 + label.wire_len() + 3).max(13) + if with_ext { 4 } else { 0 }, next_buf };
        let trains = match variant {
            // two trains sharing a 6-byte label (one through encap_ext), one with another label
            0 => vec![t(0, L6A, 20, true, 12), t(1, L6A, 18, false, 10), t(2, L3A, 16, true, 64)],
            // both same-label trains through encap_ext, 3-byte label
            1 => vec![t(0, L3A, 16, true, 10), t(1, L3A, 17, true, 64), t(2, Lbl::Bcast, 16, false, 9)],
            _ => vec![t(0, L6B, 16, false, 9), t(1, L6B, 21, true, 11)],
        };
        LSys { slots: 4, trains }
    }
}

impl System for LSys {
    type State = LSt;
    type Op = LOp;
    fn init(&self) -> Vec<LSt> {
        let enc = Encapsulator::new(DefaultCrc {});
        let n = self.trains.len();
        vec![LSt { key: format!("{:?}", enc), enc, ctx: vec![None; n], done: vec![false; n], rx: RxS::new(self.slots, 32, &vec![32; n + 1]) }]
    }
    fn ops(&self, s: &LSt) -> Vec<LOp> {
        let mut v = vec![];
        for i in 0..self.trains.len() {
            if !s.done[i] {
                v.push(LOp::Advance(i));
            }
            v.push(LOp::Complete(i));
        }
        v.push(LOp::Stray(0));
        v.push(LOp::Stray(1));
        for i in 0..self.trains.len() {
            v.push(LOp::Refused(i));
        }
        v
    }
    fn step(&self, s: &LSt, op: &LOp, acc: &mut Acc) -> StepOut<LSt> {
        let mut n = s.clone();
        let mut viols: Vec<(String, String)> = vec![];
        acc.calls += 1;
        let feed = |n: &mut LSt, bytes: &[u8], acc: &mut Acc| -> DecapOut {
            let (out, mut rx2) = step_decap(&n.rx, &DefaultCrc {}, &TableMgr::none(), bytes);
            acc.calls += 1;
            acc.compared += 1;
            if let DecapOut::Completed { buf, .. } = &out {
                rx2.mem.free.push(vec![0u8; buf.len()]);
            }
            crate::rxmodel::normalise(&mut rx2);
            n.rx = rx2;
            out
        };
        match op {
            LOp::Stray(k) => {
                let pkt = if *k == 0 { Desc::inter(200, &[0xD1, 0xD2]).print() } else { Desc::end(201, &[0xD3], 0x0102_0304).print() };
                let out = feed(&mut n, &pkt, acc);
                acc.outcome(&format!("live:stray:{}", out.class()));
                if matches!(out, DecapOut::Completed { .. } | DecapOut::Fragmented { .. }) {
                    viols.push(("C07|live|stray-accepted".into(), format!("{:?}: a continuation packet of an unknown id is accepted: {}", op, out.brief())));
                }
            }
            LOp::Refused(i) => {
                let t = &self.trains[*i];
                let mut tiny = [0u8; 3];
                let o1 = do_encap(&mut n.enc, &t.pdu, t.id, t.pt, t.label, &mut tiny);
                let o2 = do_encap_ext(&mut n.enc, &t.pdu, t.id, t.pt, t.label, &mut tiny, &[(0x0202, vec![0xE1, 0xE2])]);
                acc.outcome(&format!("live:refused:{}/{}", o1.class(), o2.class()));
                if o1.len().is_some() || o2.len().is_some() {
                    viols.push(("C07|live|sender-accepts-3-byte-buffer".into(), format!("{:?}: {:?} / {:?}", op, o1, o2)));
                    return StepOut { next: None, viols };
                }
            }
            LOp::Complete(i) => {
                let t = &self.trains[*i];
                let mut b = vec![0u8; 32];
                let small = [0x70u8 + *i as u8];
                let out = do_encap(&mut n.enc, &small, 0, 0x86DD, t.label, &mut b);
                acc.outcome(&format!("live:complete:{}", out.class()));
                match out {
                    EncOut::Completed(len) => {
                        let d = feed(&mut n, &b[..len.min(b.len())], acc);
                        let ok = matches!(&d, DecapOut::Completed { buf, meta, consumed } if meta.pdu_len == 1 && buf[0] == small[0] && meta.label == t.label && meta.pt == 0x86DD && *consumed == len);
                        if !ok {
                            viols.push((format!("C07|live|complete-not-delivered|{}", d.class()), format!("{:?}: complete packet {} with label {} -> {}", op, hex(&b[..len.min(b.len())]), t.label.short(), d.brief())));
                        }
                    }
                    other => {
                        viols.push((format!("C07|live|sender-refuses-complete|{}", other.class()), format!("{:?}: encap of a 1-byte PDU into 32 bytes -> {:?}", op, other)));
                        return StepOut { next: None, viols };
                    }
                }
            }
            LOp::Advance(i) => {
                let t = &self.trains[*i];
                let (out, buf) = match s.ctx[*i] {
                    None => {
                        let mut b = vec![0u8; t.first_buf];
                        let o = if t.exts.is_empty() { do_encap(&mut n.enc, &t.pdu, t.id, t.pt, t.label, &mut b) } else { do_encap_ext(&mut n.enc, &t.pdu, t.id, t.pt, t.label, &mut b, &t.exts) };
                        (o, b)
                    }
                    Some(c) => {
                        let mut b = vec![0u8; t.next_buf];
                        (do_encap_frag(&n.enc, &t.pdu, c, &mut b), b)
                    }
                };
                let started = s.ctx[*i].is_some();
                acc.outcome(&format!("live:{}:{}", if started { "continue" } else { "first" }, out.class()));
                let len = match &out {
                    EncOut::Fragmented(l, c) => {
                        n.ctx[*i] = Some(*c);
                        *l
                    }
                    EncOut::Completed(l) => *l,
                    other => {
                        // which buffers a sender accepts is C02's / C11's business (>= 13 bytes for encap, >= 7 for encap_frag);
                        // a refusal of encap_ext is nobody's: the path ends here and the model reports itself incomplete
                        if t.exts.is_empty() || started {
                            viols.push((format!("C07|live|sender-refuses|{}|{}", if started { "continue" } else { "first" }, other.class()), format!("{:?}: the sender answers {:?} (buffer {})", op, other, buf.len())));
                        } else {
                            acc.outcome("live:encap_ext-refused-first-buffer");
                            SENDER_REFUSED.store(true, std::sync::atomic::Ordering::Relaxed);
                        }
                        return StepOut { next: None, viols };
                    }
                };
                let pkt = &buf[..len.min(buf.len())];
                let d = feed(&mut n, pkt, acc);
                match (&out, &d) {
                    (EncOut::Fragmented(..), DecapOut::Fragmented { meta, consumed }) => {
                        if meta.label != t.label || meta.pt != t.pt || *consumed != len {
                            viols.push(("C07|live|fragment-metadata".into(), format!("{:?}: packet {} -> {} (train label {}, pt {:#06x})", op, hex(pkt), d.brief(), t.label.short(), t.pt)));
                        }
                    }
                    (EncOut::Completed(_), DecapOut::Completed { buf: got, meta, consumed }) if started => {
                        n.done[*i] = true;
                        n.ctx[*i] = None;
                        if meta.pdu_len != t.pdu.len() || got[..t.pdu.len().min(got.len())] != t.pdu[..] || meta.label != t.label || meta.pt != t.pt || meta.exts != t.exts || *consumed != len {
                            viols.push(("C07|live|delivered-differs".into(), format!("{:?}: train {} (frag id {}) delivered as {} (expected pdu {} label {} pt {:#06x} extensions {:?})", op, i, t.id, d.brief(), hex(&t.pdu), t.label.short(), t.pt, t.exts)));
                        }
                    }
                    (_, other) => {
                        viols.push((format!("C07|live|train-packet-refused|{}|{}", if started { if matches!(out, EncOut::Completed(_)) { "end" } else { "intermediate" } } else { "first" }, other.class()), format!("{:?}: packet {} of train {} (frag id {}, label {}, {}) -> {}", op, hex(pkt), i, t.id, t.label.short(), if t.exts.is_empty() { "no extension" } else { "with extension" }, other.brief())));
                        return StepOut { next: None, viols };
                    }
                }
            }
        }
        n.key = format!("{:?}", n.enc);
        StepOut { next: Some(n), viols }
    }
    fn op_json(&self, op: &LOp) -> Value {
        json!(format!("{:?}", op))
    }
}

static SENDER_REFUSED: std::sync::atomic::AtomicBool = std::sync::atomic::AtomicBool::new(false);

pub fn run_live(rep: &Report) {
    for variant in 0..3usize {
        let sys = LSys::new(variant);
        let ex = explore(&sys, &Limits { max_states: 2_000_000, max_depth: 10_000 }, rep, &format!("live-sender variant={}", variant));
        if !ex.closed {
            rep.cap("a live-sender configuration did not close");
        }
        let all_done = ex.states.iter().any(|s| s.done.iter().all(|&d| d));
        rep.part(json!({"live_sender_variant": variant, "states": ex.states.len(), "all_trains_delivered_state_reached": all_done}));
        if !all_done && SENDER_REFUSED.load(std::sync::atomic::Ordering::Relaxed) {
            rep.cap("live-sender model incomplete: encap_ext refused the first buffer of a train");
        } else if !all_done && rep.n_viol_sigs() == 0 {
            rep.violation("C07|live|vacuity|never-all-delivered", variant as u64, || ("no interleaving delivers all trains of the live-sender model".into(), json!({"variant": variant})));
        }
    }
}
