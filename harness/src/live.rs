//! Stateless bounded-depth exploration on LIVE receiver objects: every history up to the depth
//! bound is re-executed from a freshly constructed Decapsulator (real constructors, no snapshot
//! restore), so state a snapshot cannot see (a counter, a cache, a hoisted scratch buffer) is
//! carried along exactly as in real use. Complements the snapshot-based closures of C08 / C16,
//! whose state merging is only sound for state the snapshot captures.

use crate::common::*;
use crate::refm::Desc;
use crate::report::{Acc, Report};
use crate::rx::*;
use crate::rxalpha::*;
use dvb_gse_rust::crc::DefaultCrc;
use dvb_gse_rust::gse_decap::{Decapsulator, GseDecapMemory, SimpleGseMemory};
use rayon::prelude::*;
use serde_json::json;

#[derive(Clone, Debug, PartialEq, Eq)]
pub enum LOp {
    /// the caller provisions the smallest buffer it owns
    Provision,
    NewPdu,
    Reset,
    Decap(usize),
}

pub struct Live {
    pub slots: usize,
    pub buffers: Vec<usize>,
    pub pkts: Vec<Pkt>,
    pub mgr: TableMgr,
}

type Rx = Decapsulator<SimpleGseMemory, DefaultCrc, TableMgr>;

impl Live {
    pub fn new(slots: usize) -> Live {
        let wanted = [
            "complete-6B", "complete-reuse", "complete-oversize", "first-id0-6B-X", "inter-id0-X", "end-id0-X", "first-alias0-bcast-Y", "inter-alias0-Y", "end-id0-bad-crc", "inter-id0-oversize",
            "first-id1-3B-Y", "end-id1-Y", "complete-opt-then-unknown-mandatory-ext", "complete-reuse-with-opt-ext", "complete-opt-ext",
        ];
        let all = alphabet(slots);
        let pkts: Vec<Pkt> = wanted.iter().filter(|w| slots > 1 || !w.contains("id1")).filter_map(|w| all.iter().find(|p| p.name == *w).cloned()).collect();
        Live { slots, buffers: (0..slots + 3).map(|i| 8 + i).collect(), pkts, mgr: mgr_std() }
    }
    pub fn ops(&self) -> Vec<LOp> {
        let mut v = vec![LOp::Provision, LOp::NewPdu, LOp::Reset];
        v.extend((0..self.pkts.len()).map(LOp::Decap));
        v
    }
    pub fn op_name(&self, o: &LOp) -> String {
        match o {
            LOp::Decap(i) => format!("decap:{}", self.pkts[*i].name),
            other => format!("{:?}", other),
        }
    }
    fn fresh(&self) -> (Rx, Vec<usize>) {
        // real constructor: max_pdu_size 4 so that every buffer is accepted
        (Decapsulator::new(SimpleGseMemory::new(self.slots, 4, 0, 0), DefaultCrc {}, self.mgr.clone()), self.buffers.clone())
    }
    /// apply one op on the live object; returns the outcome class, or None after a panic
    fn apply(&self, d: &mut Rx, owned: &mut Vec<usize>, op: &LOp) -> Option<String> {
        match op {
            LOp::Provision => {
                if owned.is_empty() {
                    return Some("nothing-to-provision".into());
                }
                owned.sort();
                let len = owned.remove(0);
                match catch(|| d.provision_storage(vec![0u8; len].into_boxed_slice())) {
                    Err(_) => None,
                    Ok(Ok(())) => Some("Ok".into()),
                    Ok(Err(e)) => {
                        let (k, hb) = mem_err_kind(&e);
                        if let Some(b) = hb {
                            owned.push(b.len());
                        }
                        Some(format!("Err({})", k))
                    }
                }
            }
            LOp::NewPdu => match catch(|| d.new_pdu()) {
                Err(_) => None,
                Ok(Ok(b)) => {
                    owned.push(b.len());
                    Some("Ok".into())
                }
                Ok(Err(e)) => Some(format!("Err({})", mem_err_kind(&e).0)),
            },
            LOp::Reset => {
                d.reset_last_label();
                Some("Ok".into())
            }
            LOp::Decap(i) => {
                let o = do_decap(d, &self.pkts[*i].bytes);
                match &o {
                    DecapOut::Panic(_) => return None,
                    DecapOut::Completed { buf, .. } => owned.push(buf.len()),
                    DecapOut::Err { handed_back: Some(b), .. } => owned.push(b.len()),
                    _ => {}
                }
                Some(o.class())
            }
        }
    }
    fn multiset(&self, d: &Rx, owned: &[usize]) -> Vec<usize> {
        let mut v = MemS::of(&d.memory).buffer_lens();
        v.extend_from_slice(owned);
        v.sort();
        v
    }
    /// run a history; returns the live object, owned buffers, and per-op outcomes (None if it panicked)
    fn run(&self, hist: &[LOp]) -> Option<(Rx, Vec<usize>, Vec<String>)> {
        let (mut d, mut owned) = self.fresh();
        let mut outs = vec![];
        for op in hist {
            outs.push(self.apply(&mut d, &mut owned, op)?);
        }
        Some((d, owned, outs))
    }
}

#[derive(Clone, Copy, PartialEq)]
pub enum Oracle {
    Conservation,
    Recovery,
}

/// enumerate every history of length 1..=depth
pub fn live_pass(rep: &Report, prop: &str, oracle: Oracle, slots: usize, depth: usize) {
    let sys = Live::new(slots);
    let ops = sys.ops();
    let a = ops.len();
    // first two ops fan out over the thread pool, the rest is enumerated recursively
    let heads: Vec<Vec<usize>> = (0..a).flat_map(|x| std::iter::once(vec![x]).chain((0..a).map(move |y| vec![x, y]))).collect();
    let pdu_z = [0xC1u8, 0xC2, 0xC3, 0xC4];
    heads.par_iter().for_each(|head| {
        let mut acc = Acc::default();
        // iterative DFS over index vectors extending `head` (heads of length 1 are not extended)
        let mut stack: Vec<Vec<usize>> = vec![head.clone()];
        while let Some(idx) = stack.pop() {
            if rep.over_time() {
                rep.cap("live pass: wall cap");
                break;
            }
            let hist: Vec<LOp> = idx.iter().map(|&i| ops[i].clone()).collect();
            acc.states += 1;
            let names = || hist.iter().map(|o| sys.op_name(o)).collect::<Vec<_>>();
            match oracle {
                Oracle::Conservation => {
                    // conservation of the LAST op (all prefixes are histories of their own)
                    let (mut d, mut owned) = sys.fresh();
                    let mut ok = true;
                    for op in &hist[..hist.len() - 1] {
                        if sys.apply(&mut d, &mut owned, op).is_none() {
                            ok = false;
                            break;
                        }
                    }
                    acc.transitions += hist.len() as u64;
                    acc.calls += hist.len() as u64;
                    if ok {
                        let before = sys.multiset(&d, &owned);
                        if let Some(out) = sys.apply(&mut d, &mut owned, hist.last().unwrap()) {
                            acc.compared += 1;
                            let after = sys.multiset(&d, &owned);
                            if after != before {
                                let last = sys.op_name(hist.last().unwrap());
                                rep.violation(&format!("{}|live|leak|{}|{}", prop, last, out), hist.len() as u64, || (format!("live history {:?}: buffers before the last call {:?}, after {:?}", names(), before, after), json!({"live_history": names(), "slots": slots})));
                            }
                        }
                    }
                }
                Oracle::Recovery => {
                    // probes, each on a fresh re-execution of the history
                    let probes: Vec<(&str, Vec<Vec<u8>>)> = {
                        let (p1, p2, p3, _) = train(L6B, 0, &pdu_z, 0x0800);
                        let (q1, q2, q3, _) = train(L3B, slots as u8, &pdu_z, 0x0800);
                        let (r1, r2, r3, _) = train(L3B, 255, &pdu_z, 0x0800);
                        // twin of the train the alphabet leaves unfinished on id 0 (same header fields, other PDU)
                        let (t1, t2, t3, _) = train(L6A, 0, &pdu_z, 0x0800);
                        vec![("complete", vec![Desc::complete(L6B, 0x86DD, &pdu_z).print()]), ("train-id0", vec![p1, p2, p3]), ("train-alias", vec![q1, q2, q3]), ("train-id255", vec![r1, r2, r3]), ("train-twin-id0", vec![t1, t2, t3])]
                    };
                    for (pn, pk) in &probes {
                        let Some((mut d, _owned, _)) = sys.run(&hist) else { break };
                        acc.transitions += hist.len() as u64 + pk.len() as u64;
                        acc.calls += hist.len() as u64 + pk.len() as u64;
                        d.reset_last_label();
                        let prov = catch(|| d.provision_storage(vec![0u8; 4].into_boxed_slice()));
                        match prov {
                            Ok(Ok(())) => {}
                            Ok(Err(e)) if mem_err_kind(&e).0 == "StorageOverflow" => {}
                            other => {
                                rep.violation(&format!("{}|live|provision-refused", prop), hist.len() as u64, || (format!("live history {:?}: provisioning one buffer -> {:?}", names(), other.map(|r| r.map_err(|e| mem_err_kind(&e).0))), json!({"live_history": names(), "slots": slots})));
                                continue;
                            }
                        }
                        let mut last = DecapOut::Padding { consumed: 0 };
                        let mut all_ok = true;
                        for (k, b) in pk.iter().enumerate() {
                            last = do_decap(&mut d, b);
                            let want_frag = k + 1 < pk.len();
                            if want_frag && !matches!(last, DecapOut::Fragmented { .. }) {
                                all_ok = false;
                                break;
                            }
                        }
                        acc.compared += 1;
                        // bytes AND metadata (label, protocol type, no extensions) must be the probe's own
                        let (want_l, want_pt) = match *pn { "complete" => (L6B, 0x86DDu16), "train-id0" => (L6B, 0x0800), "train-twin-id0" => (L6A, 0x0800), _ => (L3B, 0x0800) };
                        let delivered = matches!(&last, DecapOut::Completed { buf, meta, .. } if meta.pdu_len == 4 && buf[..4] == pdu_z && meta.label == want_l && meta.pt == want_pt && meta.exts.is_empty());
                        if !(all_ok && delivered) {
                            rep.violation(&format!("{}|live|{}-probe|{}", prop, pn, last.class()), hist.len() as u64, || (format!("live history {:?}, then reset + provision: the {} probe is not delivered: {}", names(), pn, last.brief()), json!({"live_history": names(), "slots": slots, "probe": pk.iter().map(|b| hex(b)).collect::<Vec<_>>()})));
                        }
                    }
                }
            }
            if idx.len() >= 2 && idx.len() < depth {
                for x in 0..a {
                    let mut n = idx.clone();
                    n.push(x);
                    stack.push(n);
                }
            }
        }
        rep.merge(acc);
    });
    rep.part(json!({"part": "live stateless pass (no snapshot restore)", "slots": slots, "ops": a, "depth": depth, "histories": (1..=depth).map(|d| (a as u64).pow(d as u32)).sum::<u64>()}));
}

/// replay of a live witness (used by `gsemc replay`)
pub fn replay_live(slots: usize, names: &[String]) -> Result<Vec<String>, String> {
    let sys = Live::new(slots);
    let ops = sys.ops();
    let (mut d, mut owned) = sys.fresh();
    let mut lines = vec![];
    for (i, n) in names.iter().enumerate() {
        let op = ops.iter().find(|o| &sys.op_name(o) == n).ok_or_else(|| format!("unknown live op {}", n))?;
        let before = sys.multiset(&d, &owned);
        let out = sys.apply(&mut d, &mut owned, op).unwrap_or_else(|| "PANIC".into());
        let after = sys.multiset(&d, &owned);
        lines.push(format!("#{} {} -> {}   buffers {:?} -> {:?}", i, n, out, before, after));
    }
    lines.push(format!("receiver memory reached: {:?}", MemS::of(&d.memory)));
    Ok(lines)
}
