//! C15 — label re-use policy bounds. Closure (no depth bound) of the sender alone: state = the
//! real Encapsulator (cloned) + a monitor of what the wire carried.

use crate::common::*;
use crate::explore::*;
use crate::report::{Acc, Report, Tier};
use crate::rx::FastCrc;
use crate::tx::*;
use dvb_gse_rust::gse_encap::Encapsulator;
use serde_json::{json, Value};
use std::hash::{Hash, Hasher};

#[derive(Clone, Debug, PartialEq, Eq, Hash)]
pub struct Mon {
    /// label the receiver would resolve a re-use marker to (what the wire carried in the
    /// immediately preceding emitted start/complete packet); None after reset / broadcast
    pub wire_last: Option<Lbl>,
    /// consecutive substituted re-use packets since the last full label / configuration
    pub consec: u32,
    pub enabled: bool,
    pub max: u8,
}

#[derive(Clone, Debug)]
pub struct St {
    pub enc: Encapsulator<FastCrc>,
    pub key: String,
    pub mon: Mon,
}
impl PartialEq for St {
    fn eq(&self, o: &St) -> bool {
        self.key == o.key && self.mon == o.mon
    }
}
impl Eq for St {}
impl Hash for St {
    fn hash<H: Hasher>(&self, h: &mut H) {
        self.key.hash(h);
        self.mon.hash(h);
    }
}

#[derive(Clone, Copy, Debug, PartialEq, Eq)]
pub enum How {
    Complete,
    FirstFrag,
    ExtComplete,
    ExtFirstFrag,
    FailSmallBuffer,
    FailLongPdu,
    FailPtype,
    ExtFailSmallBuffer,
    ExtFailLongPdu,
    /// header + extensions alone exceed the maximum GSE length
    ExtFailHugeExtension,
    /// first fragment refused: buffer holds the complete-packet header but not the first-fragment header
    FailBetweenHeaders,
}

#[derive(Clone, Debug, PartialEq, Eq)]
pub enum Op {
    Send(Lbl, How),
    SendZeroLabel,
    Reset,
    Disable,
    Enable,
    EnableMax(u8),
}

pub struct Sys {
    pub labels: Vec<Lbl>,
    pub maxes: Vec<u8>,
    pub hows: Vec<How>,
    pub long_pdu: Vec<u8>,
}

pub fn send(enc: &mut Encapsulator<FastCrc>, l: Lbl, how: How, long_pdu: &[u8]) -> (EncOut, Vec<u8>) {
    let small = [0x61u8, 0x62, 0x63, 0x64, 0x65, 0x66, 0x67, 0x68];
    let ext = vec![(0x0101u16, vec![])];
    match how {
        How::Complete => {
            let mut b = vec![0u8; 64];
            let o = do_encap(enc, &small, 1, 0x0800, l, &mut b);
            (o, b)
        }
        How::FirstFrag => {
            let mut b = vec![0u8; 13];
            let o = do_encap(enc, &small, 1, 0x0800, l, &mut b);
            (o, b)
        }
        How::ExtComplete => {
            let mut b = vec![0u8; 64];
            let o = do_encap_ext(enc, &small, 1, 0x0800, l, &mut b, &ext);
            (o, b)
        }
        How::ExtFirstFrag => {
            let mut b = vec![0u8; 15];
            let o = do_encap_ext(enc, &small, 1, 0x0800, l, &mut b, &ext);
            (o, b)
        }
        How::FailSmallBuffer => {
            let mut b = vec![0u8; 3];
            let o = do_encap(enc, &small, 1, 0x0800, l, &mut b);
            (o, b)
        }
        How::FailLongPdu => {
            let mut b = vec![0u8; 64];
            let o = do_encap(enc, long_pdu, 1, 0x0800, l, &mut b);
            (o, b)
        }
        How::FailPtype => {
            let mut b = vec![0u8; 64];
            let o = do_encap(enc, &small, 1, 0x0100, l, &mut b);
            (o, b)
        }
        How::ExtFailSmallBuffer => {
            let mut b = vec![0u8; 4];
            let o = do_encap_ext(enc, &small, 1, 0x0800, l, &mut b, &ext);
            (o, b)
        }
        How::ExtFailLongPdu => {
            let mut b = vec![0u8; 64];
            let o = do_encap_ext(enc, long_pdu, 1, 0x0800, l, &mut b, &ext);
            (o, b)
        }
        How::ExtFailHugeExtension => {
            let mut b = vec![0u8; 4300];
            let huge = vec![(0x0013u16, vec![0x7E; 4100])];
            let o = do_encap_ext(enc, &small, 1, 0x0800, l, &mut b, &huge);
            (o, b)
        }
        How::FailBetweenHeaders => {
            // 8-byte PDU with a 6-byte label: complete needs 18, first fragment needs 13; a 5..6-byte buffer
            // fails in the first-fragment branch for every label kind
            let mut b = vec![0u8; 6];
            let o = do_encap(enc, &small, 1, 0x0800, l, &mut b);
            (o, b)
        }
    }
}

/// monitor step on an emitted start/complete packet; returns violated clauses
pub fn monitor(mon: &mut Mon, passed: Lbl, first_byte: u8) -> Vec<(String, String)> {
    let mut v = vec![];
    let lt = (first_byte >> 4) & 3;
    let substituted = lt == 3 && passed != Lbl::ReUse;
    if substituted {
        if !mon.enabled {
            v.push(("substitution-while-disabled".to_string(), format!("label {} replaced by the re-use marker although re-use is disabled", passed.short())));
        }
        if mon.enabled && mon.max > 0 && mon.consec + 1 > mon.max as u32 {
            v.push(("more-than-max-consecutive".to_string(), format!("re-use packet #{} in a row with a maximum of {} configured", mon.consec + 1, mon.max)));
        }
        if !passed.is_addr() {
            v.push(("substitution-for-non-address-label".to_string(), format!("re-use marker substituted for {}", passed.short())));
        } else if mon.wire_last != Some(passed) {
            let which = if mon.wire_last.is_none() { "after-reset-or-broadcast" } else { "different-preceding-label" };
            v.push((format!("substitution-without-matching-predecessor|{}", which), format!("re-use marker substituted for {} but the immediately preceding start/complete packet on the wire carried {:?}", passed.short(), mon.wire_last.map(|l| l.short()))));
        }
        mon.consec += 1;
    } else {
        match passed {
            Lbl::Six(_) | Lbl::Three(_) => {
                mon.wire_last = Some(passed);
                mon.consec = 0;
            }
            Lbl::Bcast => {
                mon.wire_last = None;
                mon.consec = 0;
            }
            Lbl::ReUse => {}
        }
    }
    v
}

impl System for Sys {
    type State = St;
    type Op = Op;
    fn init(&self) -> Vec<St> {
        let enc = Encapsulator::new(FastCrc);
        vec![St { key: format!("{:?}", enc), enc, mon: Mon { wire_last: None, consec: 0, enabled: true, max: 0 } }]
    }
    fn ops(&self, _s: &St) -> Vec<Op> {
        let mut v = vec![];
        for &l in &self.labels {
            for &h in &self.hows {
                v.push(Op::Send(l, h));
            }
        }
        v.push(Op::SendZeroLabel);
        v.push(Op::Reset);
        v.push(Op::Disable);
        v.push(Op::Enable);
        for &m in &self.maxes {
            v.push(Op::EnableMax(m));
        }
        v
    }
    fn step(&self, s: &St, op: &Op, acc: &mut Acc) -> StepOut<St> {
        let mut enc = s.enc.clone();
        let mut mon = s.mon.clone();
        let mut viols = vec![];
        acc.calls += 1;
        match op {
            Op::Send(l, how) => {
                let (out, buf) = send(&mut enc, *l, *how, &self.long_pdu);
                acc.outcome(&format!("send:{:?}:{}", how, out.class()));
                match &out {
                    EncOut::Panic(p) => {
                        viols.push((format!("C15|panic|{}", Panicked(p.clone()).coarse()), format!("{:?} panics at {}", op, p)));
                        return StepOut { next: None, viols };
                    }
                    EncOut::Err(_) => {}
                    _ => {
                        acc.compared += 1;
                        let expect_ok = matches!(how, How::Complete | How::FirstFrag | How::ExtComplete | How::ExtFirstFrag);
                        let _ = expect_ok;
                        for (cl, txt) in monitor(&mut mon, *l, buf[0]) {
                            viols.push((format!("C15|{}", cl), format!("{:?} emitted first byte {:#04x}: {}", op, buf[0], txt)));
                        }
                    }
                }
            }
            Op::SendZeroLabel => {
                let mut b = vec![0u8; 64];
                let out = do_encap(&mut enc, &[1, 2, 3], 1, 0x0800, L6Z, &mut b);
                acc.outcome(&format!("send-zero-label:{}", out.class()));
                if out.is_ok() {
                    // not C15's clause (C09), but the monitor must follow the wire
                    let _ = monitor(&mut mon, L6Z, b[0]);
                }
            }
            Op::Reset => {
                enc.reset_last_label();
                mon.wire_last = None;
                mon.consec = 0;
            }
            Op::Disable => {
                enc.disable_re_use_label();
                mon.enabled = false;
                mon.max = 0;
                mon.consec = 0;
            }
            Op::Enable => {
                enc.enable_re_use_label();
                mon.enabled = true;
                mon.max = 0;
                mon.consec = 0;
            }
            Op::EnableMax(m) => {
                enc.enable_re_use_label_with_max_consecutive(*m);
                mon.enabled = true;
                mon.max = *m;
                mon.consec = 0;
            }
        }
        // with an unlimited configuration the count is irrelevant: keep the space finite
        if !mon.enabled || mon.max == 0 {
            mon.consec = 0;
        }
        // beyond max+1 the violation has been reported; saturate so a misbehaving counter cannot make the space infinite
        mon.consec = mon.consec.min(mon.max as u32 + 1);
        let key = format!("{:?}", enc);
        StepOut { next: Some(St { enc, key, mon }), viols }
    }
    fn op_json(&self, op: &Op) -> Value {
        json!(format!("{:?}", op))
    }
}

pub fn all_hows() -> Vec<How> {
    vec![How::Complete, How::FirstFrag, How::ExtComplete, How::ExtFirstFrag, How::FailSmallBuffer, How::FailLongPdu, How::FailPtype, How::ExtFailSmallBuffer, How::ExtFailLongPdu, How::ExtFailHugeExtension, How::FailBetweenHeaders]
}

pub fn run(tier: Tier) -> i32 {
    let rep = Report::new("C15", tier);
    rep.set_rule("closure (breadth-first, no depth bound) of the real Encapsulator under the op alphabet: send(label in {two 6-byte, two 3-byte, broadcast, explicit re-use} x how in {complete, first fragment, encap_ext complete, encap_ext first fragment, fail: small buffer, fail: PDU too long, fail: protocol type, fail: buffer between the two header sizes, encap_ext fail: small buffer / PDU too long / extensions larger than a GSE packet}), zero label, reset, disable, enable, enable-with-max(N in {0,1,2,3,255}; thorough adds 4, 7, 128, 254); state = real encapsulator value + wire monitor; every emitted start/complete packet is judged by the monitor; distinct = (op kind, outcome)");
    rep.assume("the count of consecutive re-uses restarts when the re-use configuration is changed (the statement bounds re-uses 'with a maximum of N configured')");
    rep.assume("label alphabet of 8 letters (two 6-byte labels sharing their first three bytes, a 3-byte label equal to that prefix, the all-zero 3-byte label); N drawn from the listed values");
    let sys = Sys {
        labels: vec![L6A, L6B, L3A, L3B, L6P, L3Z, Lbl::Bcast, Lbl::ReUse],
        maxes: if tier.thorough() { vec![0, 1, 2, 3, 4, 7, 128, 254, 255] } else { vec![0, 1, 2, 3, 255] },
        hows: all_hows(),
        long_pdu: vec![0x11u8; 65536],
    };
    let ex = explore(&sys, &Limits { max_states: if tier.thorough() { 3_000_000 } else { 800_000 }, max_depth: 100_000 }, &rep, "sender-policy");
    // vacuity guards: the space must contain substitutions at the maximum and counter values up to 255
    let mut max_consec = 0;
    for s in &ex.states {
        max_consec = max_consec.max(s.mon.consec);
    }
    rep.part(json!({"max_consecutive_reuse_seen_by_monitor": max_consec, "closure_reached": ex.closed}));
    // (a sender that never substitutes satisfies the property: a low maximum here is information, not a verdict)
    for (i, s) in ex.states.iter().enumerate().step_by((ex.states.len() / 5).max(1)) {
        let path = ex.path(i);
        rep.sample(i as u64, || json!({"state": s.key, "monitor": format!("{:?}", s.mon), "depth": path.len(), "history_tail": path.iter().rev().take(6).rev().map(|o| format!("{:?}", o)).collect::<Vec<_>>()}));
    }
    rep.finish(true)
}
