//! C02 — fragmented round trip for every PDU and every buffer-size schedule.
//! For a fixed (PDU, label kind, protocol type, fragment id) the system "sender progress x real
//! receiver" under the op "offer an output buffer of size b" is a finite graph (at most p+2
//! sender positions): exploring it to closure covers ALL finite sequences over the buffer
//! alphabet.

use crate::common::*;
use crate::explore::*;
use crate::report::{Acc, Report, Tier};
use crate::rx::*;
use crate::tx::*;
use dvb_gse_rust::crc::DefaultCrc;
use dvb_gse_rust::gse_encap::Encapsulator;
use rayon::prelude::*;
use serde_json::{json, Value};

#[derive(Clone, Copy, Debug, PartialEq, Eq, Hash)]
pub enum Lk {
    Plain(Lbl),
    /// the same label was sent just before with re-use enabled: the first fragment's label is
    /// expected to be replaced by re-use (whatever the encapsulator decides is followed)
    AfterSame(Lbl),
    /// the same label was sent, then a PDU with ANOTHER label went out through encap_ext (header extension), as a
    /// complete packet (false) or as a first fragment whose train stays unfinished (true): both ends remember the other label
    AfterSameThenExt(Lbl, bool),
    /// a limit of 1 consecutive re-use label, the label sent twice (in full, then as re-use): the counter sits exactly at
    /// the limit, the first fragment must carry the label in full again
    AfterSameAtMax(Lbl),
}

impl Lk {
    pub fn label(self) -> Lbl {
        match self {
            Lk::Plain(l) | Lk::AfterSame(l) | Lk::AfterSameThenExt(l, _) | Lk::AfterSameAtMax(l) => l,
        }
    }
    pub fn name(self) -> String {
        match self {
            Lk::Plain(l) => l.short().split(':').next().unwrap().to_string(),
            Lk::AfterSame(l) => format!("{}-after-same", l.short().split(':').next().unwrap()),
            Lk::AfterSameAtMax(l) => format!("{}-after-same-at-max", l.short().split(':').next().unwrap()),
            Lk::AfterSameThenExt(l, f) => format!("{}-after-same-then-ext-other-{}", l.short().split(':').next().unwrap(), if f { "first" } else { "complete" }),
        }
    }
}

pub const LKS: [Lk; 8] = [Lk::Plain(L6A), Lk::Plain(L3A), Lk::Plain(Lbl::Bcast), Lk::AfterSame(L6A), Lk::AfterSame(L3A), Lk::AfterSameThenExt(L6A, false), Lk::AfterSameThenExt(L6A, true), Lk::AfterSameAtMax(L3A)];

#[derive(Clone, Debug, PartialEq, Eq, Hash)]
pub enum Tx {
    /// nothing sent yet; the list holds the buffer sizes of earlier encap calls that FAILED and left the
    /// encapsulator in a different state than before (none on a sender whose failing calls are state-neutral)
    Start(Vec<usize>),
    At(Ctx),
    Done,
}

#[derive(Clone, Debug, PartialEq, Eq, Hash)]
pub struct St {
    pub tx: Tx,
    pub rx: RxS,
}

/// what the receiver holds before the transfer starts
#[derive(Clone, Copy, Debug, PartialEq, Eq, Hash)]
pub enum RxPrior {
    Fresh,
    /// an unfinished train on the SAME fragment id with the same label, protocol type and total length (an
    /// earlier attempt to send this PDU, cut differently): first fragment with 1 byte, intermediate with 1 byte
    AbandonedSameHeader,
    /// an unfinished train on an aliasing fragment id (same memory slot)
    AbandonedAlias,
    /// rejected continuation packets (intermediate and end fragments of unknown ids, left over from a PDU whose first
    /// fragment was lost) seen right before the transfer
    Strays,
}

impl RxPrior {
    pub fn name(self) -> &'static str {
        match self {
            RxPrior::Fresh => "fresh",
            RxPrior::AbandonedSameHeader => "abandoned-same-header",
            RxPrior::AbandonedAlias => "abandoned-alias",
            RxPrior::Strays => "strays",
        }
    }
}

pub const RX_PRIORS: [RxPrior; 4] = [RxPrior::Fresh, RxPrior::AbandonedSameHeader, RxPrior::AbandonedAlias, RxPrior::Strays];

pub struct Case {
    pub pdu: Vec<u8>,
    pub rx_prior: RxPrior,
    pub lk: Lk,
    pub pt: u16,
    pub frag_id: u8,
    pub storage: usize,
    pub bufs: Vec<usize>,
    pub desc: String,
}

impl Case {
    /// sender and receiver in lock-step just before the PDU is sent
    fn prepare(&self) -> (Encapsulator<DefaultCrc>, RxS) {
        let mut enc = Encapsulator::new(DefaultCrc {});
        let st = self.storage.max(1);
        let mut rx = RxS::new(2, st, &[st, st]);
        if let Lk::AfterSameThenExt(l, frag) = self.lk {
            // room for the unfinished 12-byte train of the other label next to the PDU of the case
            let st2 = st.max(12);
            rx = RxS::new(2, st2, &[st2, st2]);
            let other = if l == L6A { L6B } else { L6A };
            let big = [0x55u8; 12];
            let mut scratch = [0u8; 64];
            let o = do_encap(&mut enc, &[0x42], 0, 0x0800, l, &mut scratch);
            let mut pkts = vec![scratch[..o.len().unwrap_or(0).min(64)].to_vec()];
            let o2 = if frag {
                do_encap_ext(&mut enc, &big, self.frag_id.wrapping_add(101), 0x0800, other, &mut scratch[..17], &[(0x0101, vec![])])
            } else {
                do_encap_ext(&mut enc, &[0x43], 0, 0x0800, other, &mut scratch, &[(0x0101, vec![])])
            };
            pkts.push(scratch[..o2.len().unwrap_or(0).min(64)].to_vec());
            for q in pkts {
                let (out, mut rx2) = step_decap(&rx, &DefaultCrc {}, &TableMgr::none(), &q);
                if let DecapOut::Completed { buf, .. } = out {
                    rx2.mem.free.push(vec![0u8; buf.len()]);
                }
                rx = rx2;
            }
        }
        if let Lk::AfterSameAtMax(l) = self.lk {
            enc.enable_re_use_label_with_max_consecutive(1);
            for k in 0..2u8 {
                let mut scratch = [0u8; 32];
                let o = do_encap(&mut enc, &[0x42 + k], 0, 0x0800, l, &mut scratch);
                let (out, mut rx2) = step_decap(&rx, &DefaultCrc {}, &TableMgr::none(), &scratch[..o.len().unwrap_or(0).min(32)]);
                if let DecapOut::Completed { buf, .. } = out {
                    rx2.mem.free.push(vec![0u8; buf.len()]);
                }
                rx = rx2;
            }
        }
        if let Lk::AfterSame(l) = self.lk {
            let mut scratch = [0u8; 32];
            let o = do_encap(&mut enc, &[0x42], 0, 0x0800, l, &mut scratch);
            let (out, mut rx2) = step_decap(&rx, &DefaultCrc {}, &TableMgr::none(), &scratch[..o.len().unwrap_or(0)]);
            if let DecapOut::Completed { buf, .. } = out {
                rx2.mem.free.push(vec![0u8; buf.len()]);
            }
            rx = rx2;
        }
        if self.rx_prior != RxPrior::Fresh {
            use crate::refm::Desc;
            // label as the sender would write it now (re-use after the same label): keeps both label memories in step
            let lw = if matches!(self.lk, Lk::AfterSame(_)) { Lbl::ReUse } else { self.lk.label() };
            let p = self.pdu.len();
            let pkts: Vec<Vec<u8>> = match self.rx_prior {
                RxPrior::AbandonedSameHeader => {
                    let total = (p + 2 + lw.wire_len()) as u16;
                    let mut v = vec![Desc::first(lw, self.pt, self.frag_id, total, &self.pdu[..p.min(1)]).print()];
                    if p >= 3 {
                        v.push(Desc::inter(self.frag_id, &self.pdu[1..2]).print());
                    }
                    v
                }
                RxPrior::Strays => vec![Desc::inter(self.frag_id.wrapping_add(77), &[0xD1, 0xD2]).print(), Desc::end(self.frag_id.wrapping_add(78), &[0xD3], 0x0102_0304).print()],
                _ => vec![Desc::first(lw, 0x86DD, self.frag_id.wrapping_add(2), (p + 9) as u16, &self.pdu[..p.min(1)]).print()],
            };
            for q in pkts {
                let (_, rx2) = step_decap(&rx, &DefaultCrc {}, &TableMgr::none(), &q);
                rx = rx2;
            }
        }
        (enc, rx)
    }
}

impl System for Case {
    type State = St;
    type Op = usize;
    fn init(&self) -> Vec<St> {
        let (_, rx) = self.prepare();
        vec![St { tx: Tx::Start(vec![]), rx }]
    }
    fn ops(&self, s: &St) -> Vec<usize> {
        if s.tx == Tx::Done {
            vec![]
        } else {
            self.bufs.clone()
        }
    }
    fn step(&self, s: &St, b: &usize, acc: &mut Acc) -> StepOut<St> {
        let b = *b;
        let mut viols: Vec<(String, String)> = vec![];
        let p = self.pdu.len();
        let l = self.lk.label();
        let lkn = self.lk.name();
        let reg = if b > PKT_LEN_MAX { "buf>4097" } else if b < 13 { "buf<13" } else { "buf13-4097" };
        let mut buf = vec![0u8; b];
        acc.calls += 1;
        let out = match &s.tx {
            Tx::Start(rejected) => {
                // "buffers rejected as too small are skipped": the rejected calls are made on the SAME encapsulator
                let (mut enc, _) = self.prepare();
                for &r in rejected {
                    let mut rb = vec![0u8; r];
                    let _ = do_encap(&mut enc, &self.pdu, self.frag_id, self.pt, l, &mut rb);
                }
                let before = format!("{:?}", enc);
                let o = do_encap(&mut enc, &self.pdu, self.frag_id, self.pt, l, &mut buf);
                if let EncOut::Err(e) = &o {
                    if b >= 13 {
                        viols.push((format!("C02|rejects-buffer>=13|{}|{}", e, reg), format!("{}: a buffer of {} bytes (>= 13) is rejected with {} in sender state {:?}", self.desc, b, e, s.tx)));
                    }
                    acc.outcome(&format!("encap:{}:{}", o.class(), reg));
                    // a failing call that changed the encapsulator leads to a distinct start state (bounded)
                    if format!("{:?}", enc) != before && rejected.len() < 2 {
                        let mut r2 = rejected.clone();
                        r2.push(b);
                        return StepOut { next: Some(St { tx: Tx::Start(r2), rx: s.rx.clone() }), viols };
                    }
                    return StepOut { next: Some(s.clone()), viols };
                }
                o
            }
            Tx::At(ctx) => {
                let enc = Encapsulator::new(DefaultCrc {});
                do_encap_frag(&enc, &self.pdu, *ctx, &mut buf)
            }
            Tx::Done => unreachable!(),
        };
        acc.outcome(&format!("{}:{}:{}", if matches!(s.tx, Tx::Start(_)) { "encap" } else { "encap_frag" }, out.class(), reg));
        let (n, next_tx) = match &out {
            EncOut::Panic(pn) => {
                viols.push((format!("C02|sender-panic|{}|{}", Panicked(pn.clone()).coarse(), reg), format!("{} buffer {}: sender panics at {}", self.desc, b, pn)));
                return StepOut { next: None, viols };
            }
            EncOut::Err(e) => {
                if b >= 13 {
                    viols.push((format!("C02|rejects-buffer>=13|{}|{}", e, reg), format!("{}: a buffer of {} bytes (>= 13) is rejected with {} in sender state {:?}", self.desc, b, e, s.tx)));
                }
                // rejected buffers are skipped: self loop
                return StepOut { next: Some(s.clone()), viols };
            }
            EncOut::Completed(n) => (*n, Tx::Done),
            EncOut::Fragmented(n, c) => (*n, Tx::At(*c)),
        };
        // liveness rank: a buffer >= 13 must make strict progress
        if b >= 13 {
            let before = match &s.tx {
                Tx::Start(_) => usize::MAX,
                Tx::At(c) => p.saturating_sub(c.pos as usize) + 1,
                Tx::Done => 0,
            };
            let after = match &next_tx {
                Tx::At(c) => p.saturating_sub(c.pos as usize) + 1,
                Tx::Done => 0,
                Tx::Start(_) => usize::MAX,
            };
            if after >= before {
                viols.push((format!("C02|no-progress|{}", reg), format!("{}: buffer of {} bytes accepted without progress ({:?} -> {:?})", self.desc, b, s.tx, next_tx)));
            }
        }
        if n > b {
            viols.push((format!("C02|reported-length>buffer|{}", reg), format!("{}: reported length {} > buffer {}", self.desc, n, b)));
            return StepOut { next: None, viols };
        }
        // feed exactly the reported bytes
        let (dout, rx2) = step_decap(&s.rx, &DefaultCrc {}, &TableMgr::none(), &buf[..(n).min(buf.len())]);
        acc.calls += 1;
        acc.compared += 1;
        let kind = if matches!(s.tx, Tx::Start(_)) { "first" } else { "next" };
        match (&next_tx, &dout) {
            (Tx::At(_), DecapOut::Fragmented { meta, consumed }) => {
                if *consumed != n {
                    viols.push((format!("C02|consumed!=reported|{}|{}", kind, reg), format!("{}: decap consumed {} for a packet of {} bytes", self.desc, consumed, n)));
                }
                if meta.label != l || meta.pt != self.pt {
                    viols.push((format!("C02|fragment-metadata|{}|{}", kind, lkn), format!("{}: fragmented status carries label {} pt {:#06x}", self.desc, meta.label.short(), meta.pt)));
                }
            }
            (Tx::Done, DecapOut::Completed { buf: got, meta, consumed }) => {
                if *consumed != n {
                    viols.push((format!("C02|consumed!=reported|{}|{}", kind, reg), format!("{}: decap consumed {} for a packet of {} bytes", self.desc, consumed, n)));
                }
                if meta.pdu_len != p || got.len() < p || got[..p] != self.pdu[..] {
                    viols.push((format!("C02|delivered-pdu-differs|{}", lkn), format!("{}: delivered PDU (len {}) differs from the original (len {})", self.desc, meta.pdu_len, p)));
                }
                if meta.label != l || meta.pt != self.pt {
                    viols.push((format!("C02|delivered-metadata|{}", lkn), format!("{}: delivered label {} pt {:#06x}", self.desc, meta.label.short(), meta.pt)));
                }
            }
            (_, other) => {
                viols.push((format!("C02|receiver-refuses|{}|{}|{}|{}", kind, out.class(), other.class(), reg), format!("{}: sender state {:?}, buffer {} -> {:?}; the receiver answers {} (storage {})", self.desc, s.tx, b, out, other.brief(), self.storage)));
                return StepOut { next: None, viols };
            }
        }
        StepOut { next: Some(St { tx: next_tx, rx: rx2 }), viols }
    }
    fn op_json(&self, op: &usize) -> Value {
        json!({"offer_buffer": op})
    }
}

/// rebuild a small-regime case from its description "pdu_len=P pattern=K label=NAME frag_id=F storage=S"
pub fn case_from_desc(desc: &str) -> Option<Case> {
    let mut p = 0usize;
    let mut pat = 0u8;
    let mut lk = LKS[0];
    let mut fid = 0u8;
    let mut st = 0usize;
    let mut rxp = RxPrior::Fresh;
    for kv in desc.split(' ') {
        let (k, v) = kv.split_once('=')?;
        match k {
            "pdu_len" => p = v.parse().ok()?,
            "pattern" => pat = v.parse().ok()?,
            "label" => lk = *LKS.iter().find(|x| x.name() == v)?,
            "frag_id" => fid = v.parse().ok()?,
            "storage" => st = v.parse().ok()?,
            "receiver" => rxp = *RX_PRIORS.iter().find(|x| x.name() == v)?,
            _ => {}
        }
    }
    let li = LKS.iter().position(|x| *x == lk)?;
    let mut bufs: Vec<usize> = (0..=p + 24).collect();
    bufs.extend([4097, 4098, 70000, 100, 1000, 5000, 65535, 65536, 65537, 65586, 69632]);
    Some(Case { pdu: pdu(p, pat), rx_prior: rxp, lk, pt: [0x0800u16, 0x86DD, 0xFFFF][(p + li) % 3], frag_id: fid, storage: st, bufs, desc: desc.to_string() })
}

pub fn run(tier: Tier) -> i32 {
    let rep = Report::new("C02", tier);
    rep.set_rule("for each case (PDU length, content pattern, label kind incl. first fragment replaced by re-use, protocol type, fragment id, storage size, receiver prior state: fresh / an unfinished earlier attempt with the same header on the same fragment id / an unfinished train on an aliasing id / rejected continuation packets of unknown ids just seen) the graph sender-progress x real-receiver under 'offer buffer of size b' is explored to closure: small regime = every PDU length 0..=40 (thorough 0..=96) with the complete buffer alphabet 0..=p+24 plus 4097/4098/65535/65536/65537/65586/69632/70000; medium regime = PDU lengths {100,255,256,257,300,513,1000,2049} with ~35 buffer sizes around the 8-bit boundary; large regime = PDUs needing fragmentation (4094..9000; thorough up to the 16-bit limit, all positions; quick additionally PDUs of 32767/33000/40000 bytes and at the 16-bit limit over the positions reachable with buffers {7, 1500, 4096, 4097, 4098, 70000}) with buffers {0..=16, 100, 1000, 4090..=4100, 5000, 65535, 70000}, states keyed by position with the receiver snapshot checked equal to the one determined by the position; every produced packet is fed to the real decap; liveness by a strictly decreasing rank for buffers >= 13; distinct = (call, status, buffer regime)");
    rep.assume("payload contents: 4 patterns (all contents of length <= 2 are swept by C01/C12); protocol types {0x0800, 0x86DD, 0xFFFF}; fragment ids {0, 1, 255} (all 256 for one PDU length)");
    small(&rep, tier);
    large(&rep, tier);
    rep.finish(true)
}

fn small(rep: &Report, tier: Tier) {
    let maxp = if tier.thorough() { 96 } else { 40 };
    let mut cases = vec![];
    for p in 0..=maxp {
        for (li, &lk) in LKS.iter().enumerate() {
            let fids: Vec<u8> = if p == 5 { (0..=255).collect() } else { vec![[0u8, 1, 255][(p + li) % 3]] };
            for fid in fids {
                // storages whose length does not fit 16 bits (few cells: every state of the graph carries the storage contents)
                let storages: Vec<usize> = if (p == 1 || p == 6) && li < 3 && fid <= 2 { vec![p, p + 5, 65536, 65535 + p] } else { vec![p, p + 5] };
                for storage in storages {
                    // receiver prior states: all three for one fragment id per cell, fresh only for the id sweep
                    let rxps: Vec<RxPrior> = if (p == 5 && fid > 2) || matches!(lk, Lk::AfterSameThenExt(..) | Lk::AfterSameAtMax(_)) { vec![RxPrior::Fresh] } else { RX_PRIORS.to_vec() };
                    for rx_prior in rxps {
                        let pat = ((p + li + storage) % 4) as u8;
                        let mut bufs: Vec<usize> = (0..=p + 24).collect();
                        bufs.extend([4097, 4098, 65535, 65536, 65537, 65586, 69632, 70000]);
                        cases.push(Case { pdu: pdu(p, pat), rx_prior, lk, pt: [0x0800u16, 0x86DD, 0xFFFF][(p + li) % 3], frag_id: fid, storage, bufs, desc: format!("pdu_len={} pattern={} label={} frag_id={} storage={} receiver={}", p, pat, lk.name(), fid, storage, rx_prior.name()) });
                    }
                }
            }
        }
    }
    // medium regime: PDU lengths around integer-width boundaries, reduced buffer alphabet
    for &p in &[100usize, 255, 256, 257, 300, 513, 1000, 2049] {
        for (li, &lk) in LKS.iter().enumerate() {
            let mut bufs: Vec<usize> = vec![0, 6, 7, 8, 10, 13, 14, 16, 17, 64, 100, 131, 255, 256, 257, 258, 259, 260, 261, 262, 263, 264, 265, 266, 270, 515, 1000, 4097, 70000];
            bufs.extend([p + 3, p + 6, p + 7, p + 10, p + 13]);
            bufs.sort();
            bufs.dedup();
            cases.push(Case { pdu: pdu(p, (li % 4) as u8), rx_prior: RxPrior::Fresh, lk, pt: 0x0800, frag_id: 255, storage: p, bufs, desc: format!("pdu_len={} pattern={} label={} frag_id=255 storage={}", p, li % 4, lk.name(), p) });
        }
    }
    let n_cases = cases.len();
    cases.par_iter().enumerate().for_each(|(ci, c)| {
        if rep.over_time() {
            rep.cap("small: wall cap");
            return;
        }
        let sub = Report::new("C02-sub", tier);
        let ex = explore(c, &Limits { max_states: 100_000, max_depth: 100_000 }, &sub, "case");
        // fold the sub-report into the main one
        fold(rep, &sub, c);
        // every non-terminal state must reach Done: follows from the rank; check Done reachable at all
        if !ex.states.iter().any(|s| s.tx == Tx::Done) && sub.n_viol_sigs() == 0 {
            rep.violation("C02|never-completes", ci as u64, || (format!("{}: no buffer schedule reaches a completed status", c.desc), json!({"case": c.desc})));
        }
        if !ex.closed {
            rep.cap("small: a case did not close");
        }
        if rep.sample_wanted(ci as u64) {
            let i = ex.states.len() - 1;
            rep.sample(ci as u64, || json!({"case": c.desc, "states": ex.states.len(), "transitions": ex.transitions, "one_schedule_of_buffers": ex.path(i)}));
        }
    });
    rep.part(json!({"part":"small regime","cases":n_cases,"pdu_lengths":format!("0..={}",maxp),"buffer_alphabet":"0..=p+24, 4097, 4098, 70000"}));
}

fn fold(rep: &Report, sub: &Report, c: &Case) {
    use std::sync::atomic::Ordering::Relaxed;
    let mut a = Acc::default();
    a.states = sub.states.load(Relaxed);
    a.transitions = sub.transitions.load(Relaxed);
    a.calls = sub.calls.load(Relaxed);
    a.compared = sub.compared.load(Relaxed);
    rep.merge(a);
    rep.depth(sub.max_depth.load(Relaxed));
    sub.drain_into(rep, &c.desc);
}

/// large regime: states keyed by sender position; the receiver snapshot is CONSTRUCTED from the
/// position (context with pdu_len = pos holding pdu[..pos]) and every transition checks that the
/// real receiver ends in exactly the snapshot constructed for the new position.
fn large(rep: &Report, tier: Tier) {
    let mut ps: Vec<usize> = vec![4094, 4096, 5000, 9000];
    if tier.thorough() {
        ps.extend([12000, 65533 - 6, 65533 - 3, 65533]);
    }
    let mut bufs_full: Vec<usize> = (0..=16).collect();
    bufs_full.extend([100, 1000]);
    bufs_full.extend(4090..=4100);
    bufs_full.extend([5000, 65535, 65536, 65537, 65586, 66000, 69632, 69633, 70000]);
    // (PDU length, label kind, sparse): sparse cases (quick tier, PDUs beyond 32 KiB and at the 16-bit limit) use a
    // buffer alphabet without tiny buffers and visit only the positions actually reachable with it
    let mut cases: Vec<(usize, Lk, bool)> = ps.iter().flat_map(|&p| LKS[..5].iter().map(move |&lk| (p, lk, false))).collect();
    if !tier.thorough() {
        for &p in &[32767usize, 33000, 40000, 65533 - 6, 65533 - 3, 65533] {
            for &lk in LKS[..5].iter() {
                cases.push((p, lk, true));
            }
        }
    }
    let cases: Vec<(usize, Lk, bool)> = cases.into_iter().filter(|&(p, lk, _)| p + 2 + lk.label().wire_len() <= 65535 || matches!(lk, Lk::AfterSame(_))).collect();
    for (p, lk, sparse) in cases {
        let bufs: Vec<usize> = if sparse { vec![7, 1500, 4096, 4097, 4098, 70000] } else { bufs_full.clone() };
        if rep.over_time() {
            rep.cap("large: wall cap");
            return;
        }
        let l = lk.label();
        let fid = 1u8;
        let pt = 0x0800u16;
        let c = Case { pdu: pdu(p, 0), rx_prior: RxPrior::Fresh, lk, pt, frag_id: fid, storage: p, bufs: bufs.clone(), desc: format!("pdu_len={} pattern=0 label={} frag_id={} storage={}", p, lk.name(), fid, p) };
        // Start transitions through the generic step (full receiver)
        let init = c.init().pop().unwrap();
        let mut reach = vec![false; p + 1];
        let mut done_reached = false;
        let mut first_ctx: Option<(Ctx, RxS)> = None;
        let mut acc = Acc::default();
        for &b in &bufs {
            acc.transitions += 1;
            let o = c.step(&init, &b, &mut acc);
            for (sig, what) in o.viols {
                rep.violation(&sig, b as u64, || (what.clone(), json!({"case": c.desc, "history": [{"offer_buffer": b}]})));
            }
            if let Some(St { tx: Tx::At(ctx), rx }) = o.next {
                if (ctx.pos as usize) <= p {
                    reach[ctx.pos as usize] = true;
                }
                if first_ctx.is_none() {
                    first_ctx = Some((ctx, rx));
                }
            } else if let Some(St { tx: Tx::Done, .. }) = o.next {
                done_reached = true;
            }
        }
        acc.states += 1;
        rep.merge(acc);
        let Some((ctx0, rx0)) = first_ctx else {
            if !done_reached {
                rep.violation("C02|never-completes", p as u64, || (format!("{}: no first fragment produced by any buffer", c.desc), json!({"case": c.desc})));
            }
            continue;
        };
        // template receiver snapshot for position `pos`
        let Some((ctx_s0, _)) = rx0.mem.ctx_in_class(fid).cloned() else {
            rep.violation("C02|receiver-has-no-context-after-first", p as u64, || (format!("{}: the receiver holds no context in the slot of frag id {} after accepting the first fragment", c.desc, fid), json!({"case": c.desc})));
            continue;
        };
        let make_rx = |pos: usize| -> RxS {
            let mut r = rx0.clone();
            let mut cs = ctx_s0.clone();
            cs.pdu_len = pos as u16;
            let mut b = vec![0u8; rx0.mem.ctx_in_class(fid).unwrap().1.len()];
            b[..pos].copy_from_slice(&c.pdu[..pos]);
            r.mem.set_ctx(cs, b);
            r
        };
        // the constructed snapshot must agree with the real one at the first position
        if make_rx(ctx0.pos as usize) != rx0 {
            rep.violation("C02|receiver-state-not-determined-by-position", p as u64, || (format!("{}: receiver snapshot after the first fragment is not (context pdu_len = pos, storage = pdu[..pos])", c.desc), json!({"case": c.desc})));
            continue;
        }
        // every position is swept in parallel (a superset of the reachable ones); reachability is
        // then computed from the observed transitions and only violations at reachable positions
        // are reported
        let eval_pos = |q: usize| -> (usize, Vec<usize>, bool, Vec<(String, String, usize)>, Acc) {
                let mut acc = Acc::default();
                let mut viols = vec![];
                let mut targets = vec![];
                let mut done = false;
                if rep.over_time() {
                    rep.cap("large: wall cap");
                    return (q, targets, done, viols, acc);
                }
                acc.states += 1;
                let s = St { tx: Tx::At(Ctx { id: fid, crc: ctx0.crc, pos: q as u16 }), rx: make_rx(q) };
                for &b in &bufs {
                    acc.transitions += 1;
                    let o = c.step(&s, &b, &mut acc);
                    for (sig, what) in o.viols {
                        viols.push((sig, what, b));
                    }
                    match o.next {
                        Some(St { tx: Tx::At(c2), rx }) => {
                            let np = c2.pos as usize;
                            if np <= q || np > p {
                                continue; // reported as no-progress by step
                            }
                            if c2.crc != ctx0.crc || c2.id != fid || rx != make_rx(np) {
                                viols.push(("C02|receiver-state-not-determined-by-position".into(), format!("{}: after position {} -> {} the receiver snapshot / context is not the one determined by the position", c.desc, q, np), b));
                            }
                            targets.push(np);
                        }
                        Some(St { tx: Tx::Done, .. }) => done = true,
                        _ => {}
                    }
                }
                (q, targets, done, viols, acc)
        };
        let results: Vec<(usize, Vec<usize>, bool, Vec<(String, String, usize)>, Acc)> = if !sparse {
            (0..=p).collect::<Vec<usize>>().par_iter().map(|&q| eval_pos(q)).collect()
        } else {
            // level-wise closure over the positions reachable from the first fragments (7-byte buffers only next to the end)
            let mut seen: Vec<bool> = reach.clone();
            let mut frontier: Vec<usize> = (0..=p).filter(|&q| seen[q]).collect();
            let mut out = vec![];
            while !frontier.is_empty() {
                let level: Vec<(usize, Vec<usize>, bool, Vec<(String, String, usize)>, Acc)> = frontier.par_iter().map(|&q| eval_pos(q)).collect();
                let mut next = vec![];
                for r in &level {
                    for &np in &r.1 {
                        // tiny steps are only followed near the end of the PDU (they would otherwise visit every position)
                        if np <= p && !seen[np] && (np - r.0 > 8 || p - np < 64) {
                            seen[np] = true;
                            next.push(np);
                        }
                    }
                }
                out.extend(level);
                next.sort();
                frontier = next;
            }
            out.sort_by_key(|r| r.0);
            // positions skipped on purpose must not count as targets for the reachability replay below
            for r in out.iter_mut() {
                r.1.retain(|&np| np <= p && seen[np]);
            }
            out
        };
        for (q, targets, done, viols, acc) in results {
            // results are in increasing q: reach[q] is final when q is visited (targets are > q)
            if !reach[q] {
                continue;
            }
            rep.merge(acc);
            for np in targets {
                reach[np] = true;
            }
            done_reached |= done;
            for (sig, what, b) in viols {
                rep.violation(&sig, (q * 100 + b.min(99)) as u64, || (what.clone(), json!({"case": c.desc, "at_position": q, "offer_buffer": b})));
            }
        }
        if !done_reached {
            rep.violation("C02|never-completes", p as u64, || (format!("{}: no buffer schedule reaches a completed status", c.desc), json!({"case": c.desc})));
        }
        let nreach = reach.iter().filter(|&&x| x).count();
        rep.part(json!({"part":"large regime","case":c.desc,"positions_reached":nreach,"label_as_written_len": if matches!(lk, Lk::AfterSame(_)) { 0 } else { l.wire_len() }}));
        rep.sample(p as u64 + 7, || json!({"case": c.desc, "positions_reached": nreach, "buffer_alphabet": bufs}));
    }
}
