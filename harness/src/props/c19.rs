//! C19 — peeking the label or fragment id agrees with decapsulation, for every packet the
//! encapsulator can produce (small regimes), alone or followed by further bytes.

use crate::common::*;
use crate::props::c06::{chains, pt_for_chain};
use crate::refm::{self, Desc, Kind};
use crate::report::{Acc, Report, Tier};
use crate::rx::*;
use crate::rxalpha::mgr_std;
use crate::sender::*;
use crate::tx::*;
use dvb_gse_rust::crc::DefaultCrc;
use dvb_gse_rust::gse_encap::Encapsulator;
use dvb_gse_rust::gse_decap::{GetLabelorFragIdError, LabelorFragId};
use rayon::prelude::*;
use serde_json::json;

#[derive(Clone, Debug, PartialEq, Eq, Hash)]
pub enum Peek {
    Lbl(Lbl),
    FragId(u8),
    Err(String),
    Panic(String),
}

fn tails() -> Vec<Vec<u8>> {
    vec![vec![], vec![0], vec![0, 0, 0, 0], vec![0xFF; 8], vec![0xC0, 0x05, 0x08, 0x00, 0x31, 0x32, 0x33], vec![0x01, 0x01, 0x02, 0x02, 0xAA, 0xBB], vec![0x10, 0x02, 0x07, 0x99]]
}

struct Item {
    bytes: Vec<u8>,
    desc: String,
    /// label passed by the sender (for start/complete packets)
    passed: Option<Lbl>,
    /// last label of a receiver in lock-step (for substituted packets)
    rx_last: Option<Lbl>,
    /// produced by encap / encap_ext (a start or complete packet)
    start_or_complete: bool,
}

fn check(rep: &Report, acc: &mut Acc, it: &Item, rank: u64) {
    let mgr = mgr_std();
    let Ok(p) = refm::parse(&it.bytes, &full_mand) else {
        // a packet the reference parser cannot read is C06's business as far as its bytes go; but the statement speaks
        // of EVERY packet the encapsulator produces: when the sender was given a full label in a state where nothing
        // can be replaced (no label remembered), peek must return that label and decap must associate it too
        if let (Some(l), None) = (it.passed, it.rx_last) {
            if l != Lbl::ReUse && it.start_or_complete {
                let st = 70000;
                let mut d = RxS::new(2, st, &[st, st]).build(DefaultCrc {}, mgr.clone());
                let pk = match catch(|| d.get_label_or_frag_id(&it.bytes)) {
                    Err(pn) => Peek::Panic(pn.0),
                    Ok(Ok(LabelorFragId::Lbl(x))) => Peek::Lbl(Lbl::from_label(x)),
                    Ok(Ok(LabelorFragId::FragId(f))) => Peek::FragId(f),
                    Ok(Err(e)) => Peek::Err(format!("{:?}", e)),
                };
                let out = do_decap(&mut d, &it.bytes);
                acc.states += 1;
                acc.transitions += 2;
                acc.calls += 2;
                acc.compared += 1;
                let dlabel = match &out {
                    DecapOut::Completed { meta, .. } | DecapOut::Fragmented { meta, .. } => Some(meta.label),
                    _ => None,
                };
                let wit = || json!({"packet": hex(&it.bytes[..it.bytes.len().min(64)]), "packet_len": it.bytes.len(), "origin": it.desc, "tail": "", "peek": format!("{:?}", pk), "decap": out.brief()});
                if pk != Peek::Lbl(l) {
                    rep.violation("C19|label|packet-not-readable-by-the-reference|peek", rank, || (format!("{}: peek returns {:?}, the label passed (and not replaceable in this state) is {}", it.desc, pk, l.short()), wit()));
                }
                if dlabel != Some(l) {
                    rep.violation(&format!("C19|label|packet-not-readable-by-the-reference|decap|{}", out.class()), rank, || (format!("{}: peek returns {:?}, decap associates {:?} ({})", it.desc, pk, dlabel.map(|x| x.short()), out.brief()), wit()));
                }
            }
        }
        return;
    };
    for t in tails() {
        let mut input = it.bytes.clone();
        input.extend_from_slice(&t);
        // receiver: a context is primed for continuation packets so that decap associates an id
        // storage large enough for whatever the packet carries
        let st = (p.payload.len() + 16).max(64);
        let mut rxs = RxS::new(2, st, &[st, st]);
        rxs.last = it.rx_last;
        if let Some(f) = p.frag_id {
            if p.kind == Kind::Inter || p.kind == Kind::End {
                rxs.mem.set_ctx(CtxS { label: L3A, pt: 0x0800, frag_id: f, total_len: (p.payload.len() + 40).min(65535) as u16, pdu_len: 2, from_reuse: false, exts: vec![] }, vec![0u8; st]);
            }
        }
        let mut d = rxs.build(DefaultCrc {}, mgr.clone());
        let pk = match catch(|| d.get_label_or_frag_id(&input)) {
            Err(pn) => Peek::Panic(pn.0),
            Ok(Ok(LabelorFragId::Lbl(l))) => Peek::Lbl(Lbl::from_label(l)),
            Ok(Ok(LabelorFragId::FragId(f))) => Peek::FragId(f),
            Ok(Err(e)) => Peek::Err(match e {
                GetLabelorFragIdError::ErrLabelReuse => "ErrLabelReuse".into(),
                GetLabelorFragIdError::ErrSizeBuffer => "ErrSizeBuffer".into(),
                GetLabelorFragIdError::ErrHeaderRead => "ErrHeaderRead".into(),
                GetLabelorFragIdError::ErrorUnkownMandatoryHeader => "ErrorUnkownMandatoryHeader".into(),
            }),
        };
        let out = do_decap(&mut d, &input);
        acc.states += 1;
        acc.transitions += 2;
        acc.calls += 2;
        acc.compared += 1;
        acc.outcome(&format!("{}:lt{}:{}", p.kind.name(), p.lt, match &pk { Peek::Lbl(_) => "Lbl".to_string(), Peek::FragId(_) => "FragId".to_string(), Peek::Err(e) => e.clone(), Peek::Panic(_) => "PANIC".into() }));
        let wit = || json!({"packet": hex(&it.bytes), "origin": it.desc, "tail": hex(&t), "peek": format!("{:?}", pk), "decap": out.brief()});
        let tk = if t.is_empty() { "alone" } else { "followed" };
        if let Peek::Panic(pn) = &pk {
            rep.violation(&format!("C19|peek-panic|{}", Panicked(pn.clone()).coarse()), rank, || (format!("get_label_or_frag_id panics at {} on {}", pn, it.desc), wit()));
            continue;
        }
        match p.kind {
            Kind::Inter | Kind::End => {
                let f = p.frag_id.unwrap();
                if pk != Peek::FragId(f) {
                    rep.violation(&format!("C19|frag-id|{}|{}", p.kind.name(), tk), rank, || (format!("{}: peek returns {:?}, the packet carries fragment id {}", it.desc, pk, f), wit()));
                }
                // decap associates the packet with the context of that id: it is not refused as unknown
                if let DecapOut::Err { kind, .. } = &out {
                    if kind.contains("UndefinedId") {
                        rep.violation(&format!("C19|decap-disagrees-on-id|{}", p.kind.name()), rank, || (format!("{}: a context for id {} is open but decap answers {}", it.desc, f, out.brief()), wit()));
                    }
                }
                // ... and with no other: when only a reassembly of ANOTHER id (sharing the memory slot) is open, decap
                // must not attach the packet to it
                if t.is_empty() {
                    let other = f.wrapping_add(2);
                    let mut rxa = RxS::new(2, 64, &[64, 64]);
                    rxa.mem.set_ctx(CtxS { label: L3B, pt: 0x86DD, frag_id: other, total_len: 40, pdu_len: 2, from_reuse: false, exts: vec![] }, vec![0u8; 64]);
                    let (oa, after) = step_decap(&rxa, &DefaultCrc {}, &mgr, &input);
                    acc.transitions += 1;
                    acc.calls += 1;
                    acc.compared += 1;
                    let attached = matches!(oa, DecapOut::Fragmented { .. } | DecapOut::Completed { .. }) || after.mem.ctx_in_class(other).map(|c| (c.0.frag_id, c.0.pdu_len)) != Some((other, 2));
                    if attached {
                        rep.violation(&format!("C19|decap-attaches-to-other-id|{}", p.kind.name()), rank, || (format!("{}: peek says fragment id {}, only a reassembly of id {} is open, and decap answers {} / leaves {:?}", it.desc, f, other, oa.brief(), after.mem.ctx_in_class(other).map(|c| &c.0)), json!({"packet": hex(&it.bytes), "origin": it.desc, "receiver": {"slots": 2, "storage": 64, "buffers": 2, "contexts": [{"label": L3B.short(), "pt": 0x86DD, "frag_id": other, "total_len": 40, "pdu_len": 2}]}, "decap": oa.brief()})));
                    }
                }
            }
            Kind::Complete | Kind::First => {
                let dlabel = match &out {
                    DecapOut::Completed { meta, .. } | DecapOut::Fragmented { meta, .. } => Some(meta.label),
                    _ => None,
                };
                if p.lt == 3 {
                    if pk != Peek::Err("ErrLabelReuse".into()) {
                        rep.violation(&format!("C19|reuse|{}|{}", p.kind.name(), tk), rank, || (format!("{}: start/complete packet with a re-use label, peek returns {:?}", it.desc, pk), wit()));
                    }
                    // the label a re-use packet refers to is that of the nearest preceding start/complete packet, also when
                    // that packet was REFUSED for lack of storage: receiver history "A delivered, B refused (no storage),
                    // storage provisioned, this packet" must never associate A with it
                    if t.is_empty() {
                        let stb = (p.payload.len() + 16).max(64);
                        let mut d2 = RxS::new(2, stb, &[stb]).build(DefaultCrc {}, mgr.clone());
                        let a = do_decap(&mut d2, &Desc::complete(L6A, 0x0800, &[0x51]).print());
                        let b = do_decap(&mut d2, &Desc::complete(L6B, 0x0800, &[0x52]).print());
                        let _ = d2.provision_storage(vec![0u8; stb].into_boxed_slice());
                        let c = do_decap(&mut d2, &input);
                        acc.transitions += 3;
                        acc.calls += 3;
                        acc.compared += 1;
                        if matches!(a, DecapOut::Completed { .. }) && !matches!(b, DecapOut::Completed { .. }) {
                            if let DecapOut::Completed { meta, .. } | DecapOut::Fragmented { meta, .. } = &c {
                                if meta.label == L6A {
                                    rep.violation(&format!("C19|reuse-decap|{}|stale-label-after-refused-packet", p.kind.name()), rank, || (format!("{}: after 'packet with label A delivered, packet with label B refused ({}), storage provisioned', decap associates this re-use packet with A ({})", it.desc, b.class(), c.brief()), json!({"packets": [hex(&Desc::complete(L6A, 0x0800, &[0x51]).print()), hex(&Desc::complete(L6B, 0x0800, &[0x52]).print()), hex(&input)], "receiver": {"slots": 2, "storage": stb, "buffers": 1}, "note": "the replay re-provisions every delivered buffer, so the second packet is not refused there; see the description"})));
                                }
                            }
                        }
                    }
                    if it.rx_last.is_some() && dlabel != it.rx_last {
                        rep.violation(&format!("C19|reuse-decap|{}", p.kind.name()), rank, || (format!("{}: decap does not resolve the re-use label from its memory {:?}: {}", it.desc, it.rx_last.map(|l| l.short()), out.brief()), wit()));
                    }
                } else {
                    let want = it.passed.unwrap();
                    if pk != Peek::Lbl(want) {
                        let ext = if p.exts.is_empty() { "no-ext" } else { "ext" };
                        rep.violation(&format!("C19|label|{}|lt{}|{}|{}", p.kind.name(), p.lt, ext, tk), rank, || (format!("{}: peek returns {:?}, the packet carries label {}", it.desc, pk, want.short()), wit()));
                    }
                    // a receiver whose storages are all held by other reassemblies: whatever it answers to this start
                    // packet, it must not associate another PDU's label with it
                    if t.is_empty() && p.kind == Kind::First {
                        let f = p.frag_id.unwrap();
                        let other = f.wrapping_add(1);
                        let mut rxe = RxS::new(2, st, &[]);
                        rxe.last = it.rx_last;
                        rxe.mem.set_ctx(CtxS { label: L6B, pt: 0x86DD, frag_id: other, total_len: 40, pdu_len: 2, from_reuse: false, exts: vec![] }, vec![0u8; st]);
                        let (oe, _) = step_decap(&rxe, &DefaultCrc {}, &mgr, &input);
                        acc.transitions += 1;
                        acc.calls += 1;
                        acc.compared += 1;
                        if let DecapOut::Fragmented { meta, .. } | DecapOut::Completed { meta, .. } = &oe {
                            if Peek::Lbl(meta.label) != pk {
                                rep.violation(&format!("C19|peek-vs-decap|{}|storage-exhausted", p.kind.name()), rank, || (format!("{}: peek {:?}; on a receiver whose only storage is held by a reassembly of id {} with another label, decap reports label {}", it.desc, pk, other, meta.label.short()), json!({"packet": hex(&it.bytes), "origin": it.desc, "receiver": {"slots": 2, "storage": st, "buffers": 0, "contexts": [{"label": L6B.short(), "pt": 0x86DD, "frag_id": other, "total_len": 40, "pdu_len": 2}]}, "decap": oe.brief()})));
                            }
                        }
                    }
                    match dlabel {
                        Some(dl) => {
                            if Peek::Lbl(dl) != pk {
                                rep.violation(&format!("C19|peek-vs-decap|{}", p.kind.name()), rank, || (format!("{}: peek {:?} but decap reports label {}", it.desc, pk, dl.short()), wit()));
                            }
                        }
                        None => {
                            rep.violation(&format!("C19|decap-refuses|{}|{}", p.kind.name(), out.class()), rank, || (format!("{}: decap refuses the packet: {}", it.desc, out.brief()), wit()));
                        }
                    }
                }
            }
        }
    }
}

/// One sender call of the history alphabet: (label, through encap_ext?, as a first fragment?)
type HOp = (Lbl, bool, bool);

/// Every history of at most `depth` (3, thorough 5) sender calls over {label A, label B (3 bytes), broadcast} x {encap, encap_ext} x
/// {complete, first fragment} on ONE encapsulator (re-use enabled), with a receiver in lock-step: each packet is
/// peeked, then decapsulated; a packet whose label was replaced must be answered with the re-use error by peek and be
/// associated by decap with the label that was replaced; a packet with a full label must peek and decap to that label.
fn histories(rep: &Report, tier: Tier) {
    let labels = [L6A, L3B, Lbl::Bcast];
    let alphabet: Vec<HOp> = labels.iter().flat_map(|&l| [(l, false, false), (l, true, false), (l, false, true), (l, true, true)]).collect();
    let depth = if tier.thorough() { 5 } else { 3 };
    let mut hists: Vec<Vec<HOp>> = vec![vec![]];
    let mut all: Vec<Vec<HOp>> = vec![];
    for _ in 0..depth {
        hists = hists.iter().flat_map(|h| alphabet.iter().map(move |&o| { let mut v = h.clone(); v.push(o); v })).collect();
        all.extend(hists.iter().cloned());
    }
    let n_h = all.len();
    all.par_iter().for_each(|h| {
        let mut acc = Acc::default();
        for tail in [vec![], vec![0xC0u8, 0x05, 0x08, 0x00, 0x31, 0x32, 0x33]] {
            let mut enc = Encapsulator::new(DefaultCrc {});
            let mut rx = RxS::new(4, 64, &[64, 64, 64, 64, 64, 64]).build(DefaultCrc {}, mgr_std());
            let mut fed: Vec<String> = vec![];
            let mut steps: Vec<String> = vec![];
            for (k, &(l, ext, frag)) in h.iter().enumerate() {
                let pd = pdu(12, k as u8);
                let mut buf = vec![0u8; if frag { 2 + 3 + l.wire_len() + 2 + 4 } else { 64 }];
                let out = if ext { do_encap_ext(&mut enc, &pd, k as u8, 0x0800, l, &mut buf, &[(0x0101, vec![])]) } else { do_encap(&mut enc, &pd, k as u8, 0x0800, l, &mut buf) };
                steps.push(format!("{}(label={}, frag_id={}, buffer={}) -> {:?}", if ext { "encap_ext" } else { "encap" }, l.short(), k, buf.len(), out));
                let Some(n) = out.len() else { break };
                let n = n.min(buf.len());
                let mut input = buf[..n].to_vec();
                input.extend_from_slice(&tail);
                let pk = match catch(|| rx.get_label_or_frag_id(&input)) {
                    Err(pn) => Peek::Panic(pn.0),
                    Ok(Ok(LabelorFragId::Lbl(x))) => Peek::Lbl(Lbl::from_label(x)),
                    Ok(Ok(LabelorFragId::FragId(f))) => Peek::FragId(f),
                    Ok(Err(e)) => Peek::Err(format!("{:?}", e)),
                };
                let d = do_decap(&mut rx, &input);
                fed.push(hex(&input));
                acc.states += 1;
                acc.transitions += 2;
                acc.calls += 3;
                acc.compared += 1;
                let replaced = n >= 1 && (buf[0] >> 4) & 3 == 3 && l != Lbl::ReUse;
                acc.outcome(&format!("history:{}:{}:{}", if replaced { "replaced" } else { "full" }, out.class(), d.class()));
                let dlabel = match &d {
                    DecapOut::Completed { meta, .. } | DecapOut::Fragmented { meta, .. } => Some(meta.label),
                    _ => None,
                };
                let last = k + 1 == h.len();
                if let DecapOut::Completed { buf, .. } = d.clone() {
                    let _ = rx.provision_storage(buf.into_boxed_slice());
                }
                if !last {
                    continue; // judged as the last packet of the shorter history
                }
                let wit = || json!({"packets": fed, "history": steps, "peek": format!("{:?}", pk), "decap": d.brief(), "label_passed": l.short()});
                let kind = if frag { "first" } else { "complete" };
                let tk = if tail.is_empty() { "alone" } else { "followed" };
                let rank = h.len() as u64;
                if replaced {
                    if pk != Peek::Err("ErrLabelReuse".into()) {
                        rep.violation(&format!("C19|history|replaced-label-peek|{}|{}", kind, tk), rank, || (format!("after {:?}: the label {} was replaced by re-use but peek returns {:?}", &steps[..k], l.short(), pk), wit()));
                    }
                    if dlabel != Some(l) {
                        rep.violation(&format!("C19|history|replaced-label-decap|{}|{}", kind, d.class()), rank, || (format!("history {:?}: the label {} of the last packet was replaced by re-use; peek {:?}; the receiver that saw every packet associates {:?} with it ({})", steps, l.short(), pk, dlabel.map(|x| x.short()), d.brief()), wit()));
                    }
                } else {
                    if pk != Peek::Lbl(l) {
                        rep.violation(&format!("C19|history|full-label-peek|{}|{}", kind, tk), rank, || (format!("history {:?}: peek returns {:?} for a packet carrying label {}", steps, pk, l.short()), wit()));
                    }
                    if dlabel != Some(l) {
                        rep.violation(&format!("C19|history|full-label-decap|{}|{}", kind, d.class()), rank, || (format!("history {:?}: peek {:?}, decap associates {:?} ({})", steps, pk, dlabel.map(|x| x.short()), d.brief()), wit()));
                    }
                }
            }
        }
        rep.merge(acc);
    });
    rep.part(json!({"part":"sender histories with a receiver in lock-step","alphabet":"{6-byte label A, 3-byte label B, broadcast} x {encap, encap_ext with one optional extension} x {complete packet, first fragment}","depth":depth,"histories":n_h,"each":"alone and followed by further bytes"}));
}

pub fn run(tier: Tier) -> i32 {
    let rep = Report::new("C19", tier);
    rep.set_rule("corpus = every packet the real encapsulator produces in the small regimes: encap over PDU lengths 0..=32 x buffers 0..=56 (thorough 0..=96 x 0..=128) and PDU lengths around the 4095 limit x buffers 4090..=70000 (with their continuation packets) x labels {6B, 3B, the all-zero 3B label, broadcast, explicit re-use} x prior {fresh, same label (substitution)} x fragment ids (all 256 for PDU length <= 2, else 3), encap_frag over every position and buffer for PDU lengths 0..=20 (thorough 0..=48) x all 256 ids (for small cells), encap_ext over all chains of length <= 2 (thorough 3) x labels x buffers; each packet alone and followed by 6 tails; peek and decap run on the same receiver (context primed for continuation packets); distinct = (kind, label type, peek result)");
    // first calls
    let maxp = if tier.thorough() { 96usize } else { 32 };
    let maxb = if tier.thorough() { 128usize } else { 56 };
    let cells: Vec<(usize, Lbl, Prior)> = (0..=maxp).flat_map(|p| [L6A, L3A, L3Z, Lbl::Bcast, Lbl::ReUse].into_iter().flat_map(move |l| [Prior::Fresh, Prior::Same].into_iter().map(move |pr| (p, l, pr)))).filter(|&(_, l, pr)| pr == Prior::Fresh || l.is_addr()).collect();
    cells.par_iter().for_each(|&(p, l, prior)| {
        let mut acc = Acc::default();
        let pd = pdu(p, 0);
        for b in 0..=maxb {
            let fids: Vec<u8> = if p <= 2 { (0..=255).collect() } else { vec![0, 0xA7, 255] };
            for fid in fids {
                let mut enc = build_prior(DefaultCrc {}, prior, l);
                let mut buf = vec![0u8; b];
                let out = do_encap(&mut enc, &pd, fid, 0x0800, l, &mut buf);
                if let Some(n) = out.len() {
                    let it = Item { bytes: buf[..n.min(b)].to_vec(), desc: format!("encap(pdu_len={}, label={}, prior={:?}, frag_id={}, buffer={}) -> {:?}", p, l.short(), prior, fid, b, out), passed: Some(l), rx_last: if prior == Prior::Same { Some(l) } else if l == Lbl::ReUse { Some(L6B) } else { None }, start_or_complete: true };
                    check(&rep, &mut acc, &it, (p * 100 + b) as u64);
                }
            }
        }
        rep.merge(acc);
    });
    rep.part(json!({"part":"encap packets","pdu_lengths":format!("0..={}", maxp),"buffers":format!("0..={}", maxb)}));
    // packets at the 12-bit GSE length limit and beyond a BBFrame-sized buffer
    let big: Vec<(usize, Lbl, Prior)> = [4080usize, 4084, 4085, 4087, 4088, 4090, 4091, 4093, 4094, 4096, 9000].into_iter().flat_map(|p| [(p, L6A, Prior::Fresh), (p, L3A, Prior::Fresh), (p, Lbl::Bcast, Prior::Fresh), (p, L6A, Prior::Same), (p, Lbl::ReUse, Prior::Fresh)]).collect();
    big.par_iter().for_each(|&(p, l, prior)| {
        let mut acc = Acc::default();
        let pd = pdu(p, 1);
        for b in [4090usize, 4094, 4095, 4096, 4097, 4098, 4100, 5000, 70000] {
            let mut enc = build_prior(DefaultCrc {}, prior, l);
            let mut buf = vec![0u8; b];
            let out = do_encap(&mut enc, &pd, 0xA7, 0x0800, l, &mut buf);
            if let EncOut::Fragmented(n, ctx) = out {
                // the continuation packets of this PDU as well
                let mut c = ctx;
                for b2 in [4097usize, 70000, 4090] {
                    let mut buf2 = vec![0u8; b2];
                    let o2 = do_encap_frag(&enc, &pd, c, &mut buf2);
                    if let Some(n2) = o2.len() {
                        let it = Item { bytes: buf2[..n2.min(b2)].to_vec(), desc: format!("encap_frag(pdu_len={}, pos={}, frag_id={}, buffer={}) -> {:?}", p, c.pos, c.id, b2, o2), passed: None, rx_last: None, start_or_complete: false };
                        check(&rep, &mut acc, &it, (p * 100) as u64);
                    }
                    if let EncOut::Fragmented(_, c2) = o2 {
                        c = c2;
                    } else {
                        break;
                    }
                }
                let _ = n;
            }
            if let Some(n) = out.len() {
                let it = Item { bytes: buf[..n.min(b)].to_vec(), desc: format!("encap(pdu_len={}, label={}, prior={:?}, frag_id=167, buffer={}) -> {:?}", p, l.short(), prior, b, out), passed: Some(l), rx_last: if prior == Prior::Same { Some(l) } else if l == Lbl::ReUse { Some(L6B) } else { None }, start_or_complete: true };
                check(&rep, &mut acc, &it, (p * 100) as u64);
            }
        }
        rep.merge(acc);
    });
    rep.part(json!({"part":"packets at the GSE length limit","pdu_lengths":[4080, 4084, 4085, 4087, 4088, 4090, 4091, 4093, 4094, 4096, 9000],"buffers":[4090, 4094, 4095, 4096, 4097, 4098, 4100, 5000, 70000]}));
    // special label values (next to the reserved zero label, all ones, ...)
    special_labels().par_iter().for_each(|&l| {
        let mut acc = Acc::default();
        for p in [0usize, 1, 5] {
            let pd = pdu(p, 0);
            for b in 5..=24usize {
                for prior in [Prior::Fresh, Prior::Same] {
                    let mut enc = build_prior(DefaultCrc {}, prior, l);
                    let mut buf = vec![0u8; b];
                    let out = do_encap(&mut enc, &pd, 3, 0x0800, l, &mut buf);
                    if let Some(n) = out.len() {
                        let it = Item { bytes: buf[..n.min(b)].to_vec(), desc: format!("encap(pdu_len={}, label={}, prior={:?}, buffer={}) -> {:?}", p, l.short(), prior, b, out), passed: Some(l), rx_last: if prior == Prior::Same { Some(l) } else { None }, start_or_complete: true };
                        check(&rep, &mut acc, &it, (p * 100 + b) as u64);
                    }
                }
            }
        }
        rep.merge(acc);
    });
    rep.part(json!({"part":"special label values","labels":special_labels().iter().map(|l| l.short()).collect::<Vec<_>>()}));
    // continuation calls
    (0..=(if tier.thorough() { 48usize } else { 20 })).collect::<Vec<_>>().par_iter().for_each(|&p| {
        let mut acc = Acc::default();
        let pd = pdu(p, 0);
        let enc = dvb_gse_rust::gse_encap::Encapsulator::new(DefaultCrc {});
        for pos in 0..=p {
            for b in 0..=p + 10 {
                let fids: Vec<u8> = if p <= 3 || (pos + b) % 7 == 0 { (0..=255).collect() } else { vec![0, 1, 0xA7, 255] };
                for fid in fids {
                    let mut buf = vec![0u8; b];
                    let out = do_encap_frag(&enc, &pd, Ctx { id: fid, crc: 0x0BAD_F00D, pos: pos as u16 }, &mut buf);
                    if let Some(n) = out.len() {
                        let it = Item { bytes: buf[..n.min(b)].to_vec(), desc: format!("encap_frag(pdu_len={}, pos={}, frag_id={}, buffer={}) -> {:?}", p, pos, fid, b, out), passed: None, rx_last: None, start_or_complete: false };
                        check(&rep, &mut acc, &it, (p * 100 + b) as u64);
                    }
                }
            }
        }
        rep.merge(acc);
    });
    rep.part(json!({"part":"encap_frag packets","pdu_lengths":if tier.thorough() { "0..=48" } else { "0..=20" },"positions":"all","buffers":"0..=p+10","frag_ids":"all 256 on a subset of cells"}));
    // extension chains
    let mut ch = chains(if tier.thorough() { 3 } else { 2 });
    for e in crate::props::c06::boundary_exts() {
        ch.push(vec![e.clone()]);
        ch.push(vec![e.clone(), (0x0303, vec![1, 2, 3, 4])]);
        ch.push(vec![(0x0202, vec![5, 6]), e.clone()]);
    }
    ch.par_iter().enumerate().for_each(|(ci, c)| {
        let mut acc = Acc::default();
        let pt = pt_for_chain(c);
        let ext_wire: usize = c.iter().map(|e| 2 + e.1.len()).sum();
        for p in [0usize, 5] {
            let pd = pdu(p, 0);
            for (l, prior) in [(L6A, Prior::Fresh), (L3A, Prior::Fresh), (L3Z, Prior::Fresh), (Lbl::Bcast, Prior::Fresh), (L6A, Prior::Same)] {
                for b in (2 + 3 + 2 + ext_wire).saturating_sub(2)..=(2 + 2 + 6 + ext_wire + p + 2) {
                    let mut enc = build_prior(DefaultCrc {}, prior, l);
                    let mut buf = vec![0u8; b];
                    let out = do_encap_ext(&mut enc, &pd, 9, pt, l, &mut buf, c);
                    if let Some(n) = out.len() {
                        let it = Item { bytes: buf[..n.min(b)].to_vec(), desc: format!("encap_ext(pdu_len={}, label={}, prior={:?}, buffer={}, extensions={:?}) -> {:?}", p, l.short(), prior, b, c.iter().map(|e| e.0).collect::<Vec<_>>(), out), passed: Some(l), rx_last: if prior == Prior::Same { Some(l) } else { None }, start_or_complete: true };
                        check(&rep, &mut acc, &it, (ci * 100 + b) as u64);
                    }
                }
            }
        }
        rep.merge(acc);
    });
    rep.part(json!({"part":"encap_ext packets","chains":ch.len()}));
    histories(&rep, tier);
    rep.sample(1, || json!({"example": "encap(pdu_len=3, label=6B, buffer=13) -> first fragment; peek Lbl(6B) == decap metadata label", "tails": tails().iter().map(|t| hex(t)).collect::<Vec<_>>()}));
    rep.finish(true)
}
