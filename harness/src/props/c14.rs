//! C14 — the 16-bit fixed-header codec is a bijection on non-padding headers.
//! Complete enumeration: all 65 536 words, all 4 x 4 x 4096 (kind, label type, length) triples.

use crate::common::*;
use crate::refm::{header_fields, header_word, Kind};
use crate::report::{Acc, Report, Tier};
use dvb_gse_rust::gse_decap::read_gse_header;
use dvb_gse_rust::gse_encap::generate_gse_header;
use dvb_gse_rust::label::LabelType;
use serde_json::json;

fn lt_of(l: &LabelType) -> u8 {
    match l {
        LabelType::SixBytesLabel => 0,
        LabelType::ThreeBytesLabel => 1,
        LabelType::Broadcast => 2,
        LabelType::ReUse => 3,
    }
}
fn lt_val(v: u8) -> LabelType {
    match v {
        0 => LabelType::SixBytesLabel,
        1 => LabelType::ThreeBytesLabel,
        2 => LabelType::Broadcast,
        _ => LabelType::ReUse,
    }
}

pub fn run(tier: Tier) -> i32 {
    let rep = Report::new("C14", tier);
    rep.set_rule("complete enumeration of the 65536 header words (decode, padding rule, re-encode) and of the 4x4x4096 (kind,label type,length) triples (encode vs reference word, decode back); a cell is non-trivial when it is not the padding pattern; history independence: every word read twice in a row after each of 48 context words (packets of every kind and padding words), triples encoded twice after each context; distinct = distinct (kind,lt) classes x verdict");
    let mut acc = Acc::default();
    // part 1: all words
    for w in 0..=0xFFFFu32 {
        let w = w as u16;
        acc.states += 1;
        acc.transitions += 1;
        acc.calls += 1;
        let r = catch(|| read_gse_header(w));
        let expect = header_fields(w);
        let wit = || json!({"call": "read_gse_header", "word": format!("{:#06x}", w)});
        match r {
            Err(p) => rep.violation(&format!("C14|read|panic|{}", p.coarse()), w as u64, || (format!("read_gse_header({:#06x}) panics at {}", w, p.0), wit())),
            Ok(None) => {
                acc.outcome("read:padding");
                if expect.is_some() {
                    rep.violation("C14|read|padding-rule|none-for-non-padding", w as u64, || (format!("read_gse_header({:#06x}) yields no packet although the word is not the padding pattern (S=0,E=0,LT=00)", w), wit()));
                }
            }
            Ok(Some((len, kind, lt))) => {
                acc.compared += 1;
                let kname = format!("{:?}", kind);
                acc.outcome(&format!("read:{}:lt{}", kname, lt_of(&lt)));
                match expect {
                    None => rep.violation("C14|read|padding-rule|packet-for-padding", w as u64, || (format!("read_gse_header({:#06x}) yields a packet for the padding pattern", w), wit())),
                    Some((ek, elt, elen)) => {
                        if kname != ek.name() {
                            rep.violation("C14|read|kind", w as u64, || (format!("read_gse_header({:#06x}) kind {} expected {}", w, kname, ek.name()), wit()));
                        }
                        if lt_of(&lt) != elt {
                            rep.violation("C14|read|label-type", w as u64, || (format!("read_gse_header({:#06x}) label type {:?} expected LT={}", w, lt, elt), wit()));
                        }
                        if len != elen {
                            rep.violation("C14|read|length", w as u64, || (format!("read_gse_header({:#06x}) length {} expected {}", w, len, elen), wit()));
                        }
                        acc.transitions += 1;
                        acc.calls += 1;
                        match catch(|| generate_gse_header(&kind, &lt, len as u16)) {
                            Err(p) => rep.violation(&format!("C14|generate|panic|{}", p.coarse()), w as u64, || (format!("generate_gse_header panics at {}", p.0), wit())),
                            Ok(w2) => {
                                if w2 != w {
                                    rep.violation("C14|reencode", w as u64, || (format!("re-encoding the decoded fields of {:#06x} gives {:#06x}", w, w2), wit()));
                                }
                            }
                        }
                    }
                }
            }
        }
        if rep.sample_wanted(w as u64) {
            rep.sample(w as u64, || json!({"word": format!("{:#06x}", w), "decoded": format!("{:?}", read_gse_header(w))}));
        }
    }
    // part 2: all triples. PktType is not nameable from outside the crate: values are obtained
    // by decoding one word per kind (LT=10 so none is padding), identified by their Debug name.
    let mut kinds = vec![];
    for k in [Kind::Complete, Kind::First, Kind::Inter, Kind::End] {
        if let Ok(Some((_, pk, _))) = catch(|| read_gse_header(header_word(k, 2, 0))) {
            if format!("{:?}", pk) == k.name() {
                kinds.push((k, pk));
            }
        }
    }
    if kinds.len() != 4 {
        rep.violation("C14|read|kind", 0, || ("cannot obtain the four packet kinds by decoding S/E bit patterns".into(), json!({"obtained": kinds.len()})));
    }
    for (k, pk) in &kinds {
        for ltv in 0..4u8 {
            for len in 0..=4095usize {
                acc.states += 1;
                acc.transitions += 1;
                acc.calls += 1;
                let lt = lt_val(ltv);
                let idx = 0x10000 + ((*k as u64) << 16) + ((ltv as u64) << 12) + len as u64;
                let wit = || json!({"call": "generate_gse_header", "kind": k.name(), "lt": ltv, "gse_len": len});
                let w = match catch(|| generate_gse_header(pk, &lt, len as u16)) {
                    Err(p) => {
                        rep.violation(&format!("C14|generate|panic|{}", p.coarse()), idx, || (format!("generate_gse_header panics at {}", p.0), wit()));
                        continue;
                    }
                    Ok(w) => w,
                };
                let ew = header_word(*k, ltv, len);
                if w != ew {
                    rep.violation("C14|generate|word", idx, || (format!("generate_gse_header({},{},{}) = {:#06x}, the standard's layout gives {:#06x}", k.name(), ltv, len, w, ew), wit()));
                }
                if *k == Kind::Inter && ltv == 0 {
                    acc.outcome("gen:padding-pattern");
                    continue; // the padding pattern: excluded by the statement
                }
                acc.transitions += 1;
                acc.calls += 1;
                acc.compared += 1;
                acc.outcome(&format!("gen:{}:lt{}", k.name(), ltv));
                match catch(|| read_gse_header(w)) {
                    Err(p) => rep.violation(&format!("C14|read|panic|{}", p.coarse()), idx, || (format!("read_gse_header panics at {}", p.0), wit())),
                    Ok(None) => rep.violation("C14|roundtrip", idx, || (format!("decoding the encoded header of ({},{},{}) yields no packet", k.name(), ltv, len), wit())),
                    Ok(Some((l2, k2, lt2))) => {
                        if l2 != len || format!("{:?}", k2) != k.name() || lt_of(&lt2) != ltv {
                            rep.violation("C14|roundtrip", idx, || (format!("decode(encode({},{},{})) = ({:?},{:?},{})", k.name(), ltv, len, k2, lt2, l2), wit()));
                        }
                    }
                }
            }
        }
    }
    rep.merge(acc);
    rep.part(json!({"words": 65536, "triples": 4 * 4 * 4096}));
    // part 3: the answer for a word must not depend on what was decoded or encoded before ("reading ANY value ..."):
    // every word is read twice in a row after each of 48 context words (all 16 S/E/LT combinations x lengths
    // 0, 1, 4095, i.e. packets of every kind and padding words), and every triple is encoded twice after each context.
    // One sequence runs on one thread without interruption, so a per-thread or global cache is exercised.
    use rayon::prelude::*;
    let contexts: Vec<u16> = (0..16u16).flat_map(|top| [0u16, 1, 0x0FFF].into_iter().map(move |l| (top << 12) | l)).collect();
    let kinds_ref = &kinds;
    contexts.par_iter().for_each(|&cw| {
        let mut acc = Acc::default();
        let cfields = catch(|| read_gse_header(cw)).ok().flatten();
        for w in 0..=0xFFFFu32 {
            let w = w as u16;
            let expect = header_fields(w);
            let _ = catch(|| read_gse_header(cw));
            for round in 0..2 {
                acc.states += 1;
                acc.transitions += 1;
                acc.calls += 1;
                acc.compared += 1;
                let got = catch(|| read_gse_header(w));
                let same = match (&got, &expect) {
                    (Ok(None), None) => true,
                    (Ok(Some((len, kind, lt))), Some((ek, elt, elen))) => format!("{:?}", kind) == ek.name() && lt_of(lt) == *elt && len == elen,
                    _ => false,
                };
                if !same {
                    let pad = if expect.is_none() { "padding-word" } else { "packet-word" };
                    rep.violation(&format!("C14|history|read|{}|{}", pad, if round == 0 { "first-read" } else { "repeated-read" }), w as u64, || {
                        (format!("after reading {:#06x}, read #{} of {:#06x} gives {:?}; the word alone decodes to {:?}", cw, round + 1, w, got.as_ref().map(|g| g.as_ref().map(|x| format!("({}, {:?}, {:?})", x.0, x.1, x.2))).map_err(|p| p.0.clone()), expect.map(|e| (e.0.name(), e.1, e.2))), json!({"call": "read_gse_header sequence", "sequence": [format!("{:#06x}", cw), format!("{:#06x}", w), format!("{:#06x}", w)]}))
                    });
                }
            }
        }
        // encoder: generate(context), then every triple twice
        if let Some((clen, ckind, clt)) = &cfields {
            for (k, pk) in kinds_ref {
                for ltv in 0..4u8 {
                    for len in [0usize, 1, 2, 255, 256, 4094, 4095] {
                        let _ = catch(|| generate_gse_header(ckind, clt, *clen as u16));
                        for round in 0..2 {
                            acc.transitions += 1;
                            acc.calls += 1;
                            acc.compared += 1;
                            let ew = header_word(*k, ltv, len);
                            match catch(|| generate_gse_header(pk, &lt_val(ltv), len as u16)) {
                                Ok(w) if w == ew => {}
                                other => rep.violation(&format!("C14|history|generate|{}", if round == 0 { "first" } else { "repeated" }), len as u64, || (format!("after encoding the fields of {:#06x}, encoding ({},{},{}) gives {:?} instead of {:#06x}", cw, k.name(), ltv, len, other.as_ref().map_err(|p| p.0.clone()), ew), json!({"call": "generate_gse_header sequence", "context_word": format!("{:#06x}", cw), "kind": k.name(), "lt": ltv, "gse_len": len}))),
                            }
                        }
                    }
                }
            }
        }
        rep.merge(acc);
    });
    rep.part(json!({"part": "history independence", "context_words": contexts.len(), "words_read_twice_after_each": 65536}));
    rep.assume("kind values of the crate's private PktType enum are obtained by decoding and identified by their Debug names");
    rep.finish(true)
}
