//! Shared pieces of the sender-side lattices (C01, C06, C09, C11, C18): size sets, prior
//! encapsulator states, the independent well-formedness oracle for emitted packets.

use crate::common::*;
use crate::refm::{self, Kind, Parsed};
use crate::rx::FastCrc;
use crate::tx::*;
use dvb_gse_rust::crc::CrcCalculator;
use dvb_gse_rust::gse_encap::Encapsulator;

// ---------------------------------------------------------------------------------------
// size sets (DESIGN §4)
// ---------------------------------------------------------------------------------------

/// windows of +-2 around the powers of two 2^7..2^16 (integer-width boundaries: u8, i16, u16 casts)
pub fn pow2_windows() -> Vec<usize> {
    let mut v = vec![];
    for k in 7..=16u32 {
        let c = 1usize << k;
        v.extend(c - 2..=c + 2);
    }
    v
}

pub fn p_set() -> Vec<usize> {
    let mut v = range(0, 48);
    v.extend(range(4070, 4125));
    v.extend(range(65500, 65560));
    v.extend([5000, 8192, 70000]);
    v.extend(pow2_windows());
    uniq(v)
}

pub fn b_set() -> Vec<usize> {
    let mut v = range(0, 48);
    v.extend(range(4070, 4125));
    v.extend(range(65500, 65560));
    v.extend([5000, 8192, 70000]);
    v.extend(pow2_windows());
    uniq(v)
}

/// buffer sizes relative to the needs of one (pdu length, label length, ext length) case
pub fn b_relative(p: usize, l: usize, ext: usize) -> Vec<usize> {
    let mut v = vec![];
    for need in [2 + 2 + l + ext + p, 2 + 3 + 2 + l + ext, 2 + 1 + p + 4, 2 + 3 + 2 + l + ext + p] {
        for d in 0..=4usize {
            v.push((need + d).saturating_sub(2));
        }
    }
    v
}

pub const SENTINELS: [u8; 2] = [0xA5, 0x5A];

// ---------------------------------------------------------------------------------------
// prior encapsulator states (built through the real API only)
// ---------------------------------------------------------------------------------------

#[derive(Clone, Copy, PartialEq, Eq, Hash, Debug)]
pub enum Prior {
    /// new(): re-use enabled, nothing remembered
    Fresh,
    /// re-use disabled, nothing remembered
    Disabled,
    /// re-use enabled (unlimited), the label of the case was sent just before
    Same,
    /// re-use enabled with max 1, label of the case sent twice (counter at max: next must be full)
    SameAtMax,
    /// re-use enabled with max 2, label sent twice (counter below max)
    SameBelowMax,
    /// re-use enabled, a different label sent just before
    Other,
    /// re-use disabled after the label of the case was sent
    SameThenDisabled,
    /// re-use enabled, a different label sent, then an encap_ext call with the label of the case REFUSED (buffer ending
    /// inside the extension area), an encap call refused for its buffer (3 bytes) and one refused for its PDU length (65534 bytes): nothing of it went on the wire
    OtherThenRefused,
    /// the label of the case sent, re-use switched off, another label sent, re-use switched on again: nothing that went
    /// out while re-use was off may be referred to, and the label sent before is no longer the previous one
    SameOffOtherOn,
}

/// PRIORS plus the states only some checks use
pub const ALL_PRIORS: [Prior; 9] = [Prior::Fresh, Prior::Disabled, Prior::Same, Prior::SameAtMax, Prior::SameBelowMax, Prior::Other, Prior::SameThenDisabled, Prior::OtherThenRefused, Prior::SameOffOtherOn];

pub const PRIORS: [Prior; 8] = [Prior::Fresh, Prior::Disabled, Prior::Same, Prior::SameAtMax, Prior::SameBelowMax, Prior::Other, Prior::SameThenDisabled, Prior::OtherThenRefused];

impl Prior {
    /// may the encapsulator legitimately substitute a re-use label for `l` from this state?
    /// (only used to ACCEPT a substitution, never to demand one; the policy itself is C15's)
    pub fn may_substitute(self, l: Lbl) -> bool {
        l.is_addr() && matches!(self, Prior::Same | Prior::SameBelowMax)
    }
    /// what a receiver fed with the packets of the prior history remembers as last label
    pub fn receiver_last(self, l: Lbl) -> Option<Lbl> {
        let other = if l == L6A { L6B } else { L6A };
        match self {
            Prior::Fresh | Prior::Disabled => None,
            Prior::Same | Prior::SameAtMax | Prior::SameBelowMax | Prior::SameThenDisabled => if l.is_addr() { Some(l) } else { None },
            Prior::Other | Prior::OtherThenRefused | Prior::SameOffOtherOn => Some(other),
        }
    }
}

/// a PDU of 65534 bytes: exceeds the 16-bit total length with every label kind
pub fn long_pdu() -> &'static [u8] {
    static LONG: std::sync::OnceLock<Vec<u8>> = std::sync::OnceLock::new();
    LONG.get_or_init(|| vec![0x4C; 65534])
}

pub fn build_prior<C: CrcCalculator>(crc: C, prior: Prior, l: Lbl) -> Encapsulator<C> {
    let mut e = Encapsulator::new(crc);
    let mut scratch = [0u8; 64];
    let small = [0x42u8; 3];
    let send = |e: &mut Encapsulator<C>, l: Lbl, scratch: &mut [u8]| {
        let _ = do_encap(e, &small, 0, 0x0800, l, scratch);
    };
    let other = if l == L6A { L6B } else { L6A };
    match prior {
        Prior::Fresh => {}
        Prior::Disabled => e.disable_re_use_label(),
        Prior::Same => send(&mut e, l, &mut scratch),
        Prior::SameAtMax => {
            e.enable_re_use_label_with_max_consecutive(1);
            send(&mut e, l, &mut scratch);
            send(&mut e, l, &mut scratch);
        }
        Prior::SameBelowMax => {
            e.enable_re_use_label_with_max_consecutive(2);
            send(&mut e, l, &mut scratch);
            send(&mut e, l, &mut scratch);
        }
        Prior::Other => send(&mut e, other, &mut scratch),
        Prior::OtherThenRefused => {
            send(&mut e, other, &mut scratch);
            let mut tiny = [0u8; 12];
            let _ = do_encap_ext(&mut e, &small, 0, 0x0800, l, &mut tiny, &[(0x0303, vec![1, 2, 3, 4]), (0x0202, vec![5, 6])]);
            let mut tiny3 = [0u8; 3];
            let _ = do_encap(&mut e, &small, 0, 0x0800, l, &mut tiny3);
            // ... and a call refused because the PDU exceeds the 16-bit total length whatever the label (buffer large enough)
            let _ = do_encap(&mut e, long_pdu(), 0, 0x0800, l, &mut scratch);
        }
        Prior::SameThenDisabled => {
            send(&mut e, l, &mut scratch);
            e.disable_re_use_label();
        }
        Prior::SameOffOtherOn => {
            send(&mut e, l, &mut scratch);
            e.disable_re_use_label();
            send(&mut e, other, &mut scratch);
            e.enable_re_use_label();
        }
    }
    e
}

// ---------------------------------------------------------------------------------------
// well-formedness oracle
// ---------------------------------------------------------------------------------------

/// mandatory-extension table of the harness alphabet (C13) + the two signalling ids
pub fn full_mand(id: u16) -> Option<(bool, usize)> {
    match id {
        0x0081 | 0x0082 => Some((true, 0)),
        0x0042 => Some((true, 3)),
        0x0010 => Some((false, 0)),
        0x0011 => Some((false, 1)),
        0x0018 => Some((false, 8)),
        _ => None,
    }
}

pub struct FirstIn<'a> {
    pub pdu: &'a [u8],
    pub frag_id: u8,
    pub pt: u16,
    pub label: Lbl,
    pub b: usize,
    pub may_substitute: bool,
    /// extension list passed to encap_ext (empty: encap)
    pub exts: &'a [(u16, Vec<u8>)],
    /// what a receiver knows about the mandatory extension ids (None: the harness-wide table)
    pub mand: Option<&'a dyn Fn(u16) -> Option<(bool, usize)>>,
}

/// A failed clause: (clause id used in signatures, human text)
pub type Fail = (String, String);

/// Check one packet emitted by encap / encap_ext against an independent reading of the
/// standard. `buf` is the whole output buffer (length b) after the call, `sentinel` its fill.
/// Returns the parsed packet when it parses.
pub fn wf_first<C: CrcCalculator>(i: &FirstIn, out: &EncOut, buf: &[u8], sentinel: u8, crc: &C) -> (Vec<Fail>, Option<Parsed>) {
    let mut f: Vec<Fail> = vec![];
    let n = match out.len() {
        Some(n) => n,
        None => return (f, None),
    };
    let is_ext = !i.exts.is_empty();
    if n > i.b {
        f.push(("len>buffer".into(), format!("reported length {} exceeds the buffer length {}", n, i.b)));
        return (f, None);
    }
    if n < 2 {
        f.push(("len<2".into(), format!("reported length {} is shorter than a fixed header", n)));
        return (f, None);
    }
    if n > PKT_LEN_MAX {
        f.push(("gse-len>4095".into(), format!("reported length {} exceeds the 4097-byte maximum GSE packet", n)));
    }
    if let Some(k) = buf[n..].iter().position(|&x| x != sentinel) {
        f.push(("write-beyond".into(), format!("byte at offset {} (>= reported length {}) was modified", n + k, n)));
    }
    let w = u16::from_be_bytes([buf[0], buf[1]]);
    let Some((kind, _lt, gse_len)) = refm::header_fields(w) else {
        f.push(("reads-as-padding".into(), format!("emitted header {:#06x} reads as padding", w)));
        return (f, None);
    };
    if gse_len + 2 != n {
        f.push(("gse-len!=written-2".into(), format!("GSE length field {} but reported length {} (should be GSE length + 2)", gse_len, n)));
        return (f, None);
    }
    let want_kind = match out {
        EncOut::Completed(_) => Kind::Complete,
        _ => Kind::First,
    };
    if kind != want_kind {
        f.push(("kind-bits".into(), format!("S/E bits say {} but the status is {}", kind.name(), out.class())));
        return (f, None);
    }
    let table: &dyn Fn(u16) -> Option<(bool, usize)> = match i.mand {
        Some(t) => t,
        None => &full_mand,
    };
    let p = match refm::parse(&buf[..(n).min(buf.len())], table) {
        Ok(p) => p,
        Err(e) => {
            f.push(("unparsable".into(), format!("packet does not parse: {:?}", e)));
            return (f, None);
        }
    };
    // label-type bits vs label bytes actually written
    let substituted = p.lt == 3 && i.label != Lbl::ReUse;
    if substituted {
        if !i.may_substitute {
            f.push(("unexpected-reuse".into(), format!("label type re-use written for label {} that was not the previously sent label", i.label.short())));
        }
    } else if p.lt != i.label.lt() || p.label != i.label.bytes() {
        f.push(("label-field".into(), format!("label type bits {} / label bytes {} do not match the label passed {}", p.lt, hex(&p.label), i.label.short())));
    }
    let lw = p.label.len();
    // type field / extensions
    if is_ext {
        let want: Vec<(u16, Vec<u8>)> = i.exts.to_vec();
        if p.exts != want {
            f.push(("ext-chain".into(), format!("extension chain on the wire {:?} differs from the one passed {:?}", p.exts, want)));
        }
        if p.type_field != Some(i.exts[0].0) {
            f.push(("ext-first-id".into(), format!("type field {:?} is not the first extension id {:#06x}", p.type_field, i.exts[0].0)));
        }
        if p.pt != Some(i.pt) {
            f.push(("ext-ptype".into(), format!("protocol type after the chain {:?} differs from the one passed {:#06x}", p.pt, i.pt)));
        }
    } else {
        if p.type_field != Some(i.pt) {
            f.push(("ptype-field".into(), format!("protocol type field {:?} differs from {:#06x}", p.type_field, i.pt)));
        }
    }
    let ext_wire: usize = if is_ext {
        // bytes between label and payload
        let mut s = 0;
        for (k, (id, d)) in i.exts.iter().enumerate() {
            s += d.len();
            let last = k + 1 == i.exts.len();
            let final_mand = last && *id < 0x0100 && table(*id).map(|x| x.0).unwrap_or(false);
            if !final_mand {
                s += 2;
            }
        }
        s
    } else {
        0
    };
    match want_kind {
        Kind::Complete => {
            if p.payload != i.pdu {
                f.push(("payload".into(), format!("complete packet payload ({} bytes) is not the PDU ({} bytes)", p.payload.len(), i.pdu.len())));
            }
            if n != 2 + 2 + lw + ext_wire + i.pdu.len() {
                f.push(("complete-len".into(), format!("complete packet length {} != 2+2+{}+{}+{}", n, lw, ext_wire, i.pdu.len())));
            }
        }
        _ => {
            let EncOut::Fragmented(_, ctx) = out else { unreachable!() };
            if p.frag_id != Some(i.frag_id) || ctx.id != i.frag_id {
                f.push(("frag-id".into(), format!("fragment id on the wire {:?} / in the context {} differs from {}", p.frag_id, ctx.id, i.frag_id)));
            }
            let k = p.payload.len();
            if k > i.pdu.len() || p.payload != i.pdu[..k] {
                f.push(("payload".into(), format!("first fragment payload ({} bytes) is not a prefix of the PDU ({} bytes)", k, i.pdu.len())));
            }
            if ctx.pos as usize != k {
                f.push(("ctx-count".into(), format!("returned context counts {} payload bytes, the fragment carries {}", ctx.pos, k)));
            }
            if !is_ext {
                let want_total = 2 + lw + i.pdu.len();
                if p.total_len.map(|t| t as usize) != Some(want_total) {
                    f.push(("total-length".into(), format!("total length {:?} != 2 + {} + {}", p.total_len, lw, i.pdu.len())));
                }
            }
            if let Some(t) = p.total_len {
                let want_crc = crc.calculate_crc32(i.pdu, i.pt, t, &p.label);
                if ctx.crc != want_crc {
                    f.push(("ctx-crc".into(), format!("context CRC {:#010x} is not the CRC over (total length, protocol type, label as written, PDU) {:#010x}", ctx.crc, want_crc)));
                }
            }
        }
    }
    (f, Some(p))
}

pub struct FragIn<'a> {
    pub pdu: &'a [u8],
    pub ctx: Ctx,
    pub b: usize,
}

/// Check one encap_frag result (C06 well-formedness + C11 progress/partition clauses).
pub fn wf_frag(i: &FragIn, out: &EncOut, buf: &[u8], sentinel: u8) -> Vec<Fail> {
    let mut f: Vec<Fail> = vec![];
    let p_len = i.pdu.len();
    let pos = i.ctx.pos as usize;
    if pos > p_len {
        match out {
            EncOut::Err(_) => {} // any error will do: the statement only says "an error, never a packet"
            EncOut::Panic(_) => {}
            other => f.push(("ctx-beyond-pdu".into(), format!("context points beyond the PDU ({} > {}) but the call returned {}", pos, p_len, other.class()))),
        }
        return f;
    }
    let rem = p_len - pos;
    match out {
        EncOut::Panic(_) => return f,
        EncOut::Err(e) => {
            if i.b >= 7 {
                f.push(("rejects>=7".into(), format!("buffer of {} bytes (>= 7) rejected with {} (remaining {})", i.b, e, rem)));
            }
            return f;
        }
        _ => {}
    }
    let n = out.len().unwrap();
    if n > i.b {
        f.push(("len>buffer".into(), format!("reported length {} exceeds the buffer length {}", n, i.b)));
        return f;
    }
    if n < 3 {
        f.push(("len<3".into(), format!("reported length {} too short", n)));
        return f;
    }
    if n > PKT_LEN_MAX {
        f.push(("gse-len>4095".into(), format!("reported length {} exceeds the 4097-byte maximum GSE packet", n)));
    }
    if let Some(k) = buf[n..].iter().position(|&x| x != sentinel) {
        f.push(("write-beyond".into(), format!("byte at offset {} (>= reported length {}) was modified", n + k, n)));
    }
    let w = u16::from_be_bytes([buf[0], buf[1]]);
    let Some((kind, lt, gse_len)) = refm::header_fields(w) else {
        f.push(("reads-as-padding".into(), format!("emitted header {:#06x} reads as padding", w)));
        return f;
    };
    if gse_len + 2 != n {
        f.push(("gse-len!=written-2".into(), format!("GSE length field {} but reported length {}", gse_len, n)));
        return f;
    }
    if lt != 3 {
        f.push(("lt-bits".into(), format!("label type bits {} on a non-start fragment (the standard requires 11)", lt)));
    }
    let want_kind = match out {
        EncOut::Completed(_) => Kind::End,
        _ => Kind::Inter,
    };
    if kind != want_kind {
        f.push(("kind-bits".into(), format!("S/E bits say {} but the status is {}", kind.name(), out.class())));
        return f;
    }
    let p = match refm::parse(&buf[..(n).min(buf.len())], &full_mand) {
        Ok(p) => p,
        Err(e) => {
            f.push(("unparsable".into(), format!("packet does not parse: {:?}", e)));
            return f;
        }
    };
    if p.frag_id != Some(i.ctx.id) {
        f.push(("frag-id".into(), format!("fragment id on the wire {:?} differs from the context's {}", p.frag_id, i.ctx.id)));
    }
    match out {
        EncOut::Completed(_) => {
            if p.payload != i.pdu[pos..] {
                f.push(("payload".into(), format!("end fragment payload ({} bytes) is not the remaining PDU slice ({} bytes)", p.payload.len(), rem)));
            }
            if p.crc != Some(i.ctx.crc) {
                f.push(("crc-trailer".into(), format!("CRC trailer {:?} is not the context CRC {:#010x} big-endian", p.crc, i.ctx.crc)));
            }
        }
        EncOut::Fragmented(_, c2) => {
            let k = p.payload.len();
            if k == 0 {
                f.push(("empty-fragment".into(), format!("intermediate fragment without payload (remaining {}, buffer {})", rem, i.b)));
            }
            if k > rem || p.payload != i.pdu[pos..pos + k.min(rem)] {
                f.push(("payload".into(), format!("intermediate payload ({} bytes) is not the PDU slice at {}", k, pos)));
            }
            if c2.id != i.ctx.id || c2.crc != i.ctx.crc {
                f.push(("ctx-id-crc".into(), "returned context changed fragment id or CRC".into()));
            }
            if c2.pos as usize != pos + k {
                f.push(("ctx-advance".into(), format!("context advanced from {} to {} but {} payload bytes were written", pos, c2.pos, k)));
            }
        }
        _ => {}
    }
    // rejection duties
    if rem == 0 && i.b < 7 {
        f.push(("accepts-useless-buffer".into(), format!("only the CRC remains and the buffer has {} < 7 bytes, yet the call returned {}", i.b, out.class())));
    }
    if rem > 0 && i.b < 4 {
        f.push(("accepts-useless-buffer".into(), format!("buffer of {} bytes cannot carry a payload byte, yet the call returned {}", i.b, out.class())));
    }
    f
}

/// regime flags used in signatures
pub fn regime(p: usize, b: usize) -> String {
    let mut s = vec![];
    if b > PKT_LEN_MAX {
        s.push("buf>4097");
    }
    if p > GSE_LEN_MAX {
        s.push("pdu>4095");
    }
    if p > TOTAL_LEN_MAX {
        s.push("pdu>65535");
    }
    if s.is_empty() {
        "small".into()
    } else {
        s.join(",")
    }
}

pub fn fast_enc() -> Encapsulator<FastCrc> {
    Encapsulator::new(FastCrc)
}
