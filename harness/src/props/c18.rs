//! C18 — previews predict exactly what encapsulation will produce (differential check of the
//! duplicated decision logic over the complete size / label / protocol-type lattices).

use crate::common::*;
use crate::props::c06::positions;
use crate::props::c09::PT_Q;
use crate::report::{Acc, Report, Tier};
use crate::rx::FastCrc;
use crate::sender::*;
use crate::tx::*;
use rayon::prelude::*;
use serde_json::json;

fn cmp_first(rep: &Report, acc: &mut Acc, p: usize, b: usize, l: Lbl, pt: u16, prior: Prior, out: &EncOut, pv: &PrevOut) {
    acc.compared += 1;
    let desc = || (format!("pdu_len={}, pt={:#06x}, label={}, buffer={}, encapsulator {:?}: encap -> {:?}, encap_preview -> {:?}", p, pt, l.short(), b, prior, out, pv),
                   json!({"call":"encap vs encap_preview","pdu_len":p,"pdu_pattern":0,"frag_id":7,"pt":pt,"label":l.short(),"buffer_len":b,"prior":format!("{:?}",prior)}));
    let rank = (p * 100_000 + b) as u64;
    let ptc = if pt < 0x0100 { "pt<0x100" } else if pt < 0x0600 { "pt-mid" } else { "pt>=0x600" };
    match (out, pv) {
        (EncOut::Panic(_), _) | (_, PrevOut::Panic(_)) => {} // C09's business
        (EncOut::Err(e), PrevOut::Err(e2)) => {
            if e != e2 {
                rep.violation(&format!("C18|encap|different-error|{}|{}|{}", e, e2, ptc), rank, || { let (d, w) = desc(); (format!("different errors: {}", d), w) });
            }
        }
        (EncOut::Err(e), PrevOut::Ok(..)) => rep.violation(&format!("C18|encap|preview-ok-encap-err|{}|{}", e, ptc), rank, || { let (d, w) = desc(); (format!("preview predicts a packet, encap fails: {}", d), w) }),
        (_, PrevOut::Err(e)) => rep.violation(&format!("C18|encap|preview-err-encap-ok|{}|{}", e, ptc), rank, || { let (d, w) = desc(); (format!("preview predicts an error, encap produces a packet: {}", d), w) }),
        (o, PrevOut::Ok(kind, _, len)) => {
            let want_kind = if matches!(o, EncOut::Completed(_)) { "CompletePkt" } else { "FirstFragPkt" };
            if kind != want_kind {
                rep.violation(&format!("C18|encap|kind|{}", regime(p, b)), rank, || { let (d, w) = desc(); (format!("packet kind differs: {}", d), w) });
            }
            if Some(*len) != o.len() {
                rep.violation(&format!("C18|encap|length|{}|{}", want_kind, regime(p, b)), rank, || { let (d, w) = desc(); (format!("packet length differs: {}", d), w) });
            }
        }
    }
}

fn cmp_frag(rep: &Report, acc: &mut Acc, p: usize, pos: usize, b: usize, out: &EncOut, pv: &PrevOut) {
    acc.compared += 1;
    let desc = || (format!("pdu_len={}, context pos={}, buffer={}: encap_frag -> {:?}, encap_frag_preview -> {:?}", p, pos, b, out, pv),
                   json!({"call":"encap_frag vs encap_frag_preview","pdu_len":p,"pdu_pattern":0,"frag_id":7,"ctx_pos":pos,"buffer_len":b}));
    let rank = (p * 100_000 + b) as u64;
    let rem = p.saturating_sub(pos);
    match (out, pv) {
        (EncOut::Panic(_), _) | (_, PrevOut::Panic(_)) => {}
        (EncOut::Err(e), PrevOut::Err(e2)) => {
            if e != e2 {
                rep.violation(&format!("C18|encap_frag|different-error|{}|{}", e, e2), rank, || { let (d, w) = desc(); (format!("different errors: {}", d), w) });
            }
        }
        (EncOut::Err(e), PrevOut::Ok(..)) => rep.violation(&format!("C18|encap_frag|preview-ok-encap-err|{}", e), rank, || { let (d, w) = desc(); (format!("preview predicts a packet, encap_frag fails: {}", d), w) }),
        (_, PrevOut::Err(e)) => rep.violation(&format!("C18|encap_frag|preview-err-encap-ok|{}", e), rank, || { let (d, w) = desc(); (format!("preview predicts an error, encap_frag produces a packet: {}", d), w) }),
        (o, PrevOut::Ok(kind, plen, len)) => {
            let (want_kind, payload) = match o {
                EncOut::Completed(_) => ("EndFragPkt", rem),
                EncOut::Fragmented(_, c) => ("IntermediateFragPkt", (c.pos as usize).wrapping_sub(pos)),
                _ => unreachable!(),
            };
            if kind != want_kind {
                rep.violation(&format!("C18|encap_frag|kind|{}", regime(rem, b)), rank, || { let (d, w) = desc(); (format!("packet kind differs: {}", d), w) });
            }
            if Some(*len) != o.len() {
                rep.violation(&format!("C18|encap_frag|length|{}|{}", want_kind, regime(rem, b)), rank, || { let (d, w) = desc(); (format!("packet length differs: {}", d), w) });
            }
            if *plen != payload && p <= 65535 {
                rep.violation(&format!("C18|encap_frag|payload-length|{}|{}", want_kind, regime(rem, b)), rank, || { let (d, w) = desc(); (format!("payload length differs (preview {} vs written {}): {}", plen, payload, d), w) });
            }
        }
    }
}

pub fn run(tier: Tier) -> i32 {
    let rep = Report::new("C18", tier);
    rep.set_rule("differential enumeration: encap_preview vs encap (encapsulator fresh, re-use disabled, disabled after the same label, after another label, and at the consecutive-re-use limit: in all of them no substitution applies) over the complete (PDU length x buffer length x label incl. the reserved zero label, explicit re-use and, for small PDUs, special label values such as the all-zero 3-byte label x protocol type) lattice; encap_frag_preview vs encap_frag over (PDU length x context position x buffer length); thorough closes the PDU length completely (every length 0..=70000 against the buffer set) and the buffer length completely for the PDU set (every buffer 0..=70000), and adds all 65536 protocol types; distinct = (call, outcome pair, regime)");
    rep.assume("sizes between the enumerated windows are represented by the windows");
    let labels = [L6A, L3A, Lbl::Bcast, Lbl::ReUse, L6Z];
    let ps: Vec<usize> = if tier.thorough() { (0..=70000).collect() } else { p_set() };
    let bs: Vec<usize> = if tier.thorough() { let mut v = b_set(); v.extend((0..=70000).step_by(499)); uniq(v) } else { b_set() };
    let cells: Vec<(usize, Lbl)> = ps.iter().flat_map(|&p| labels.into_iter().chain(if p < 48 { special_labels() } else { vec![] }).map(move |l| (p, l))).collect();
    cells.par_iter().for_each(|&(p, l)| {
        if rep.over_time() {
            rep.cap("first: wall cap");
            return;
        }
        let mut acc = Acc::default();
        let pd = pdu(p, 0);
        let mut bl = bs.clone();
        bl.extend(b_relative(p, l.wire_len(), 0));
        let bl = uniq(bl);
        let mut buf = vec![0xA5u8; *bl.last().unwrap()];
        // SameAtMax: the label was just sent but the consecutive-re-use limit is reached, so no substitution applies
        for prior in [Prior::Fresh, Prior::Disabled, Prior::SameThenDisabled, Prior::Other, Prior::SameAtMax, Prior::OtherThenRefused] {
            if matches!(prior, Prior::SameThenDisabled | Prior::SameAtMax) && !l.is_addr() {
                continue;
            }
            let base = build_prior(FastCrc, prior, l);
            for &b in &bl {
                let pts: Vec<u16> = if p <= 8 && b <= 24 { PT_Q.to_vec() } else { vec![PT_Q[(p + b) % PT_Q.len()], 0x0800] };
                for pt in pts {
                    let pv = do_preview(&pd, pt, l, &buf[..b]);
                    let mut enc = base.clone();
                    let out = do_encap(&mut enc, &pd, 7, pt, l, &mut buf[..b]);
                    acc.states += 1;
                    acc.transitions += 2;
                    acc.calls += 2;
                    acc.outcome(&format!("first:{}/{}", out.class(), match &pv { PrevOut::Ok(k, ..) => k.clone(), PrevOut::Err(e) => format!("Err({})", e), PrevOut::Panic(_) => "PANIC".into() }));
                    cmp_first(&rep, &mut acc, p, b, l, pt, prior, &out, &pv);
                    if rep.sample_wanted((p * 977 + b) as u64) {
                        rep.sample((p * 977 + b) as u64, || json!({"pdu_len":p,"label":l.short(),"pt":pt,"buffer":b,"encap":format!("{:?}",out),"preview":format!("{:?}",pv)}));
                    }
                }
            }
        }
        rep.merge(acc);
    });
    rep.part(json!({"part":"encap vs encap_preview","pdu_lengths":ps.len(),"buffer_lengths_base":bs.len(),"labels":5}));
    if tier.thorough() {
        // cross in the buffer length: every buffer 0..=70000 for the PDU set
        let pcells: Vec<(usize, Lbl)> = p_set().into_iter().flat_map(|p| labels.into_iter().map(move |l| (p, l))).collect();
        pcells.par_iter().for_each(|&(p, l)| {
            if rep.over_time() {
                rep.cap("first(b cross): wall cap");
                return;
            }
            let mut acc = Acc::default();
            let pd = pdu(p, 0);
            let mut buf = vec![0xA5u8; 70000];
            for prior in [Prior::Fresh, Prior::Disabled] {
                let base = build_prior(FastCrc, prior, l);
                for b in 0..=70000usize {
                    let pt = if b % 2 == 0 { 0x0800 } else { 0x0081 };
                    let pv = do_preview(&pd, pt, l, &buf[..b]);
                    let mut enc = base.clone();
                    let out = do_encap(&mut enc, &pd, 7, pt, l, &mut buf[..b]);
                    acc.states += 1;
                    acc.transitions += 2;
                    acc.calls += 2;
                    cmp_first(&rep, &mut acc, p, b, l, pt, prior, &out, &pv);
                }
            }
            rep.merge(acc);
        });
        rep.part(json!({"part":"encap vs encap_preview: buffer cross","pdu_lengths":p_set().len(),"buffers":"0..=70000"}));
    }

    // protocol types
    let pts: Vec<u32> = if tier.thorough() { (0..=0xFFFF).collect() } else { (0..=0x0700).chain(0xFF00..=0xFFFF).collect() };
    pts.par_chunks(512).for_each(|chunk| {
        let mut acc = Acc::default();
        for &pt in chunk {
            let pt = pt as u16;
            for p in [0usize, 3] {
                let pd = pdu(p, 0);
                for l in [L6A, Lbl::Bcast] {
                    for b in [0usize, 5, 8, 13, 16, 64] {
                        let mut buf = vec![0u8; b];
                        let pv = do_preview(&pd, pt, l, &buf);
                        let mut enc = fast_enc();
                        let out = do_encap(&mut enc, &pd, 7, pt, l, &mut buf);
                        acc.states += 1;
                        acc.transitions += 2;
                        acc.calls += 2;
                        acc.outcome(&format!("ptsweep:{}", out.class()));
                        cmp_first(&rep, &mut acc, p, b, l, pt, Prior::Fresh, &out, &pv);
                    }
                }
            }
        }
        rep.merge(acc);
    });
    rep.part(json!({"part":"protocol type sweep","protocol_types":pts.len()}));

    // continuation calls
    let ps: Vec<usize> = if tier.thorough() { let mut v = p_set(); v.extend((0..=65535).step_by(257)); uniq(v) } else { p_set() };
    let bsq = b_set();
    ps.par_iter().for_each(|&p| {
        if rep.over_time() {
            rep.cap("frag: wall cap");
            return;
        }
        let mut acc = Acc::default();
        let pd = pdu(p, 0);
        let enc = fast_enc();
        let mut buf = vec![0u8; 70000];
        let poss: Vec<usize> = if p <= 64 { let mut v: Vec<usize> = (0..=p + 1).collect(); v.push(65535); v } else { positions(p) };
        for pos in poss {
            let rem = p.saturating_sub(pos);
            let mut bl = if p <= 64 { (0..=p + 16).collect::<Vec<_>>() } else { bsq.clone() };
            bl.extend([4097, 4098, 70000]);
            for d in 0..=4usize {
                bl.push((2 + 1 + rem + 4 + d).saturating_sub(2));
                bl.push((3 + rem + d).saturating_sub(2));
            }
            for b in uniq(bl.into_iter().filter(|&b| b <= 70000).collect()) {
                let ctx = Ctx { id: 7, crc: 0x1234_5678, pos: pos as u16 };
                let pv = do_frag_preview(&pd, ctx, &buf[..b]);
                let out = do_encap_frag(&enc, &pd, ctx, &mut buf[..b]);
                acc.states += 1;
                acc.transitions += 2;
                acc.calls += 2;
                acc.outcome(&format!("frag:{}/{}", out.class(), match &pv { PrevOut::Ok(k, ..) => k.clone(), PrevOut::Err(e) => format!("Err({})", e), PrevOut::Panic(_) => "PANIC".into() }));
                cmp_frag(&rep, &mut acc, p, pos, b, &out, &pv);
            }
        }
        rep.merge(acc);
    });
    rep.part(json!({"part":"encap_frag vs encap_frag_preview","pdu_lengths":ps.len()}));
    rep.finish(true)
}
