//! Receiver-side packet alphabet, built by hand with the reference printer (independent of the
//! crate's encapsulator), covering every exit of decap: valid packets of every kind and one
//! packet per rejection reason.

use crate::common::*;
use crate::refm::{crc_ref, Desc, Kind};
use crate::rx::TableMgr;

#[derive(Clone, Debug)]
pub struct Pkt {
    pub name: String,
    pub bytes: Vec<u8>,
}

/// the PDU used by the fragment trains of the alphabet (4 bytes: fits a 4-byte storage)
pub const PDU_X: [u8; 4] = [0xA1, 0xA2, 0xA3, 0xA4];
pub const PDU_Y: [u8; 4] = [0xB1, 0xB2, 0xB3, 0xB4];

pub fn mgr_std() -> TableMgr {
    // knows: 0x0081 final no data, 0x0042 final 3 bytes, 0x0010/0x0011/0x0018 non-final 0/1/8 bytes
    TableMgr { known: vec![(0x0081, true, 0), (0x0082, true, 0), (0x0042, true, 3), (0x0010, false, 0), (0x0011, false, 1), (0x0018, false, 8)] }
}

fn named(name: &str, bytes: Vec<u8>) -> Pkt {
    Pkt { name: name.to_string(), bytes }
}

/// train of PDU `pdu` on `id` with label `l` (as written), cut 2 | 1 | 1
pub fn train(l: Lbl, id: u8, pdu: &[u8; 4], pt: u16) -> (Vec<u8>, Vec<u8>, Vec<u8>, u32) {
    let lb = l.bytes();
    let total = (4 + 2 + lb.len()) as u16;
    let crc = crc_ref(total, pt, &lb, pdu);
    (Desc::first(l, pt, id, total, &pdu[..2]).print(), Desc::inter(id, &pdu[2..3]).print(), Desc::end(id, &pdu[3..], crc).print(), crc)
}

/// Alphabet for a memory of `slots` slots. `alias` = slots (aliases id 0), 255 etc.
pub fn alphabet(slots: usize) -> Vec<Pkt> {
    let n = slots as u8;
    let mut v = vec![];
    // complete packets
    v.push(named("complete-6B", Desc::complete(L6A, 0x0800, &[0x11, 0x12]).print()));
    v.push(named("complete-3B", Desc::complete(L3A, 0x86DD, &[0x21]).print()));
    v.push(named("complete-bcast", Desc::complete(Lbl::Bcast, 0x0800, &[0x31, 0x32, 0x33]).print()));
    v.push(named("complete-reuse", Desc::complete(Lbl::ReUse, 0x0800, &[0x41]).print()));
    v.push(named("complete-empty-pdu", Desc::complete(L3B, 0x0800, &[]).print()));
    let mut d = Desc::complete(L6B, 0x0101, &[0x51, 0x52]);
    d.ext_bytes = vec![0x08, 0x00];
    v.push(named("complete-opt-ext", d.print()));
    let mut d = Desc::complete(L3A, 0x0011, &[0x61]);
    d.ext_bytes = vec![0xD1, 0x08, 0x00];
    v.push(named("complete-known-mandatory-ext", d.print()));
    let mut d = Desc::complete(L3A, 0x0033, &[0x71, 0x72]);
    d.ext_bytes = vec![];
    v.push(named("complete-unknown-mandatory-ext", d.print()));
    // packets rejected AFTER the extension walker has already read extensions
    let mut d = Desc::complete(L3A, 0x0101, &[0x73]);
    d.ext_bytes = vec![0x00, 0x33];
    v.push(named("complete-opt-then-unknown-mandatory-ext", d.print()));
    let mut d = Desc::complete(Lbl::ReUse, 0x0101, &[0x74]);
    d.ext_bytes = vec![0x08, 0x00];
    v.push(named("complete-reuse-with-opt-ext", d.print()));
    let mut d = Desc::complete(L3A, 0x0101, &[]);
    d.ext_bytes = vec![0x02, 0x02];
    v.push(named("complete-ext-chain-past-end", d.print()));
    v.push(named("complete-zero-label", Desc::complete(L6Z, 0x0800, &[0x81]).print()));
    v.push(named("complete-oversize", Desc::complete(Lbl::Bcast, 0x0800, &[0x91; 9]).print()));
    let mut d = Desc::complete(L6A, 0x0800, &[]);
    d.gse_len = Some(3);
    v.push(named("complete-bad-gse-len", d.print()));
    // first fragments
    let (f0, i0, e0, crc0) = train(L6A, 0, &PDU_X, 0x0800);
    v.push(named("first-id0-6B-X", f0));
    v.push(named("inter-id0-X", i0));
    v.push(named("end-id0-X", e0));
    let (f1, i1, e1, _) = train(L3A, 1, &PDU_Y, 0x86DD);
    v.push(named("first-id1-3B-Y", f1));
    v.push(named("inter-id1-Y", i1));
    v.push(named("end-id1-Y", e1));
    let (fa, ia, ea, _) = train(Lbl::Bcast, n, &PDU_Y, 0x0800);
    v.push(named("first-alias0-bcast-Y", fa));
    v.push(named("inter-alias0-Y", ia));
    v.push(named("end-alias0-Y", ea));
    let (fr, _, er, _) = train(Lbl::ReUse, 0, &PDU_X, 0x0800);
    v.push(named("first-id0-reuse-X", fr));
    v.push(named("end-id0-reuse-X", er));
    v.push(named("first-id0-oversize", Desc::first(L3A, 0x0800, 0, 40, &[0x95; 9]).print()));
    v.push(named("first-id0-bad-total", Desc::first(L3A, 0x0800, 0, 1, &[0x96, 0x97]).print()));
    // accepted first fragments whose announced total length is smaller than protocol type + label (the train can
    // never verify; the end fragment must be answered with an error, not with an arithmetic panic)
    v.push(named("first-id0-total-below-overhead", Desc::first(L3A, 0x0800, 0, 4, &[0x9E]).print()));
    v.push(named("first-id0-no-payload-total1", Desc::first(L6A, 0x0800, 0, 1, &[]).print()));
    // first fragment with a long extension area (10 bytes) that leaves only 4 of its 6 PDU bytes for later
    let mut d = Desc::first(Lbl::Bcast, 0x0501, 1, 8, &[0xB1, 0xB2]);
    d.ext_bytes = vec![0xF1, 0xF2, 0xF3, 0xF4, 0xF5, 0xF6, 0xF7, 0xF8, 0x08, 0x00];
    v.push(named("first-id1-long-ext-nearly-whole-pdu", d.print()));
    let mut d = Desc::first(L3A, 0x0800, 0, 9, &[]);
    d.gse_len = Some(4);
    v.push(named("first-bad-gse-len", d.print()));
    let mut d = Desc::first(L3B, 0x0202, 1, 9, &PDU_X[..1]);
    d.ext_bytes = vec![0xE1, 0xE2, 0x08, 0x00];
    v.push(named("first-id1-opt-ext", d.print()));
    v.push(named("first-id0-zero-label", Desc::first(L6Z, 0x0800, 0, 12, &[0x98]).print()));
    let mut d = Desc::first(L3A, 0x0033, 0, 9, &[0x99]);
    d.ext_bytes = vec![];
    v.push(named("first-id0-unknown-mandatory-ext", d.print()));
    // continuation packets that are rejected
    v.push(named("inter-id0-oversize", Desc::inter(0, &[0x9A; 9]).print()));
    let mut d = Desc::inter(0, &[]);
    d.gse_len = Some(1);
    v.push(named("inter-empty", d.print()));
    v.push(named("inter-unknown-id", Desc::inter(254, &[0x9B]).print()));
    v.push(named("end-id0-bad-crc", Desc::end(0, &PDU_X[3..], crc0 ^ 1).print()));
    v.push(named("end-id0-bad-total", Desc::end(0, &PDU_X[2..], crc0).print()));
    v.push(named("end-id0-oversize", Desc::end(0, &[0x9C; 9], crc0).print()));
    v.push(named("end-unknown-id", Desc::end(254, &[0x9D], 0).print()));
    let mut d = Desc::end(0, &[], 0);
    d.crc = 0;
    let mut b = d.print();
    b.truncate(5);
    b[1] = 3; // gse_len 3 < frag id + crc
    v.push(named("end-bad-gse-len", b));
    // frame-level
    v.push(named("padding-2", vec![0, 0]));
    v.push(named("padding-4", vec![0, 0, 0, 0]));
    v.push(named("one-byte", vec![0xC0]));
    v.push(named("truncated", vec![0xC0, 0x14, 0x08, 0x00, 0x01, 0x02]));
    v
}

/// kinds of packets of the alphabet that a correct receiver must accept when storage is available
pub fn kind_of(bytes: &[u8]) -> Option<Kind> {
    if bytes.len() < 2 {
        return None;
    }
    crate::refm::header_fields(u16::from_be_bytes([bytes[0], bytes[1]])).map(|x| x.0)
}
