//! C13 — extension-header chains round-trip; unknown mandatory extensions cause a drop;
//! Extension::new accepts exactly the valid (id, data length) pairs and never panics.

use crate::common::*;
use crate::props::c06::{chains, ext_alphabet, is_final_mand, pt_for_chain};
use crate::refm::{self, Kind};
use crate::report::{Acc, Report, Tier};
use crate::rx::*;
use crate::rxalpha::mgr_std;
use crate::sender::*;
use crate::tx::*;
use dvb_gse_rust::crc::DefaultCrc;
use dvb_gse_rust::gse_encap::Encapsulator;
use dvb_gse_rust::header_extension::Extension;
use rayon::prelude::*;
use serde_json::json;

fn hlen_data(id: u16) -> Option<usize> {
    match id >> 8 {
        1 => Some(0),
        2 => Some(2),
        3 => Some(4),
        4 => Some(6),
        5 => Some(8),
        _ => None,
    }
}

fn part_constructor(rep: &Report) {
    (0..=0xFFFFu32).collect::<Vec<_>>().par_chunks(2048).for_each(|chunk| {
        let mut acc = Acc::default();
        for &id in chunk {
            let id = id as u16;
            for len in 0..=10usize {
                let data: Vec<u8> = (0..len).map(|i| 0xA0 + i as u8).collect();
                acc.states += 1;
                acc.transitions += 1;
                acc.calls += 1;
                acc.compared += 1;
                let want_ok = id < 0x0600 && (id < 0x0100 || hlen_data(id) == Some(len));
                let r = catch(|| Extension::new(id, &data).map(|e| (e.id(), ext_to_s(&e).1, e.len())));
                let wit = || json!({"call":"Extension::new","id":id,"data_len":len});
                let cls = if id < 0x100 { "mandatory" } else if id < 0x600 { "optional" } else if id == 0x600 { "id=0x0600" } else { "id>0x0600" };
                match r {
                    Err(p) => rep.violation(&format!("C13|constructor|panic|{}|{}", p.coarse(), cls), id as u64, || (format!("Extension::new({:#06x}, {} bytes) panics at {}", id, len, p.0), wit())),
                    Ok(Ok((rid, rdata, rlen))) => {
                        acc.sout("ctor:Ok", (id >> 8).min(7) as u32);
                        if !want_ok {
                            rep.violation(&format!("C13|constructor|accepts-invalid|{}", cls), id as u64, || (format!("Extension::new({:#06x}, {} bytes) succeeds", id, len), wit()));
                        } else if rid != id || rdata != data || rlen != 2 + len {
                            rep.violation("C13|constructor|fields", id as u64, || (format!("Extension::new({:#06x}, {} bytes): id()/data()/len() inconsistent", id, len), wit()));
                        }
                    }
                    Ok(Err(_)) => {
                        acc.sout("ctor:Err", (id >> 8).min(7) as u32);
                        if want_ok {
                            rep.violation(&format!("C13|constructor|rejects-valid|{}", cls), id as u64, || (format!("Extension::new({:#06x}, {} bytes) fails", id, len), wit()));
                        }
                    }
                }
            }
        }
        rep.merge(acc);
    });
    rep.part(json!({"part":"constructor","ids":65536,"data_lengths":"0..=10"}));
}

/// receiver managers: all ids known / all but one (each in turn) / none
fn managers() -> Vec<(String, TableMgr)> {
    let all = mgr_std();
    let mut v = vec![("all".to_string(), all.clone())];
    for k in 0..all.known.len() {
        let mut m = all.clone();
        let id = m.known.remove(k).0;
        v.push((format!("all-but-{:#06x}", id), m));
    }
    v.push(("none".to_string(), TableMgr::none()));
    v
}

pub fn run(tier: Tier) -> i32 {
    let rep = Report::new("C13", tier);
    rep.set_rule("A: Extension::new for all 65536 ids x data lengths 0..=10. B: all chains of length 1..=3 (thorough 1..=5) over a 10-letter alphabet (one optional id per H-LEN class, three known non-final mandatory ids with 0/1/8 data bytes, two final mandatory ids in last position) x protocol types {matching, another id < 0x100, 0x0100, 0x05FF, 0x0600, 0x0800} x labels {6B, 3B, broadcast, substituted re-use, 3B / 6B at / below a consecutive-re-use limit} x PDU lengths {0,1,7} x EVERY buffer size 0..=complete size+3 (plus 4097, 70000), and for chains <= 2 PDU lengths {4060,4078,4085,4088,4090,4093,4096} x buffers around the complete size, 4090..=4110, 13, 40, 8192, fragmented results completed with encap_frag; receivers knowing all / all-but-one (each in turn) / none of the mandatory ids, storage = PDU length and +8. Oracle: Ok => reference parser recovers the same chain/ptype/label/payload and reported length = wire length; knowing receiver delivers the same; receiver missing a used mandatory id rejects consuming exactly the packet, also when more bytes follow. distinct = (call, outcome, chain length / manager class)");
    part_constructor(&rep);
    let maxlen = if tier.thorough() { 5 } else { 3 };
    let mut ch = chains(maxlen);
    for e in crate::props::c06::boundary_exts() {
        ch.push(vec![e.clone()]);
        ch.push(vec![e.clone(), (0x0011, vec![0xD1])]);
        ch.push(vec![(0x0011, vec![0xD1]), e.clone()]);
    }
    let n_mgr_kinds = 4;
    let n_chains = ch.len();
    ch.par_iter().enumerate().for_each(|(ci, c)| {
        if rep.over_time() {
            rep.cap("chains: wall cap");
            return;
        }
        let mut acc = Acc::default();
        let last = c.last().unwrap().0;
        let mut pts: Vec<u16> = vec![pt_for_chain(c), 0x0100, 0x05FF, 0x0600, 0x0800, 0x0011];
        if last < 0x0100 {
            pts.push(last);
        } else {
            pts.push(0x0081);
        }
        pts.sort();
        pts.dedup();
        let mand_used: Vec<u16> = c.iter().map(|e| e.0).filter(|&i| i < 0x0100).collect();
        for &pt in &pts {
            // What "knowing the mandatory extensions used" means for this call: a mandatory id is final
            // exactly when it is the last extension and the protocol type passed is its id (that is how
            // the sender interface expresses finality). A chain using one id both ways is not expressible
            // by a table-driven receiver and is skipped.
            let mut table: Vec<(u16, bool, u8)> = vec![];
            let mut inconsistent = false;
            for (k, e) in c.iter().enumerate() {
                if e.0 >= 0x0100 {
                    continue;
                }
                let is_final = k + 1 == c.len() && pt == e.0;
                match table.iter().find(|t| t.0 == e.0) {
                    Some(t) if t.1 != is_final || t.2 as usize != e.1.len() => inconsistent = true,
                    Some(_) => {}
                    None => table.push((e.0, is_final, e.1.len() as u8)),
                }
            }
            if inconsistent {
                continue;
            }
            let case_mgr = TableMgr { known: table.clone() };
            let case_tab = |id: u16| case_mgr.lookup(id);
            let mut mgrs: Vec<(String, TableMgr)> = vec![];
            for k in 0..table.len() {
                let mut m = case_mgr.clone();
                let id = m.known.remove(k).0;
                mgrs.push((format!("all-but-{:#06x}", id), m));
            }
            mgrs.push(("none".to_string(), TableMgr::none()));
            // a receiver knowing other mandatory ids than the ones used
            mgrs.push(("others-only".to_string(), TableMgr { known: vec![(0x0077, false, 2)] }));
            let all_mgr = case_mgr.clone();
            let big_ps: &[usize] = if c.len() <= 2 { &[4060, 4078, 4085, 4088, 4090, 4093, 4096] } else { &[] };
            for &p in [0usize, 1, 7].iter().chain(big_ps.iter()) {
                let pd = pdu(p, 0);
                for (li, &(l, prior)) in [(L6A, Prior::Fresh), (L3A, Prior::Fresh), (Lbl::Bcast, Prior::Fresh), (L6A, Prior::Same), (L3A, Prior::SameAtMax), (L6A, Prior::SameBelowMax), (L6A, Prior::OtherThenRefused), (L3A, Prior::OtherThenRefused)].iter().enumerate() {
                    let ext_wire: usize = c.iter().map(|e| 2 + e.1.len()).sum();
                    let complete_size = 2 + 2 + l.wire_len() + ext_wire + p;
                    let mut bl: Vec<usize> = if p <= 7 { (0..=complete_size + 3).collect() } else { (complete_size - 5..=complete_size + 3).chain(4090..=4110).chain([13, 40, 8192]).collect() };
                    bl.extend([4097, 70000]);
                    for b in bl {
                        let mut enc = build_prior(DefaultCrc {}, prior, l);
                        let sent = SENTINELS[(b + li) % 2];
                        let mut buf = vec![sent; b];
                        let out = do_encap_ext(&mut enc, &pd, 6, pt, l, &mut buf, c);
                        acc.states += 1;
                        acc.transitions += 1;
                        acc.calls += 1;
                        acc.outcome(&format!("encap_ext:{}:chain{}", out.class(), c.len()));
                        let Some(n) = out.len() else { continue };
                        let rank = (c.len() * 10_000_000 + ci * 100 + b.min(99)) as u64;
                        let wit = || json!({"call":"encap_ext","pdu_len":p,"pdu_pattern":0,"frag_id":6,"pt":pt,"label":l.short(),"prior":format!("{:?}",prior),"buffer_len":b,"extensions":c.iter().map(|e| json!([e.0, hex(&e.1)])).collect::<Vec<_>>(),"result":format!("{:?}",out),"bytes":hexs(&buf[..n.min(b)])});
                        let desc = format!("encap_ext(pdu_len={}, pt={:#06x}, label={}, buffer={}, extensions={:?})", p, pt, l.short(), b, c.iter().map(|e| e.0).collect::<Vec<_>>());
                        // (1) independent decoding
                        acc.compared += 1;
                        let i = FirstIn { pdu: &pd, frag_id: 6, pt, label: l, b, may_substitute: prior.may_substitute(l), exts: c, mand: Some(&case_tab) };
                        let (fails, parsed) = wf_first(&i, &out, &buf, sent, &DefaultCrc {});
                        // bytes behind the packet are the subject of another property (C06), not of this statement
                        let fails: Vec<(String, String)> = fails.into_iter().filter(|f| f.0 != "write-beyond").collect();
                        for (cl, txt) in &fails {
                            let lastk = if last < 0x0100 { if pt == last { "last-final-mandatory" } else { "last-nonfinal-mandatory" } } else { "last-optional" };
                            let ptk = if pt < 0x0100 { "pt<0x100" } else { "pt>=0x600" };
                            rep.violation(&format!("C13|not-decodable|{}|{}|{}|{}", cl, out.class(), lastk, ptk), rank, || (format!("{} returned {:?} but the packet is not what a receiver decodes: {}", desc, out, txt), wit()));
                        }
                        if !fails.is_empty() || parsed.is_none() {
                            continue;
                        }
                        // (2) the real receiver knowing all ids, completing a fragmented PDU with encap_frag
                        for storage in [p, p + 8] {
                            let mut rx = RxS::new(2, storage.max(1), &[storage.max(1), storage.max(1)]).build(DefaultCrc {}, all_mgr.clone());
                            // lock-step: the receiver saw the packets of the prior history
                            rx.verif_set_last_label(prior.receiver_last(l).map(|x| x.to_label()));
                            let d1 = do_decap(&mut rx, &buf[..(n).min(buf.len())]);
                            acc.transitions += 1;
                            acc.calls += 1;
                            acc.compared += 1;
                            let want_exts: Vec<ExtS> = c.to_vec();
                            let final_out = match (&out, &d1) {
                                (EncOut::Completed(_), d) => d.clone(),
                                (EncOut::Fragmented(_, ctx), DecapOut::Fragmented { meta, consumed }) => {
                                    if meta.exts != want_exts || meta.pt != pt || meta.label != l || *consumed != n {
                                        rep.violation("C13|receiver|first-fragment-metadata", rank, || (format!("{}: first fragment decoded as {}", desc, d1.brief()), wit()));
                                    }
                                    let mut bb = vec![0u8; 4200];
                                    let mut cur = *ctx;
                                    let mut last: Option<DecapOut> = None;
                                    for _ in 0..6 {
                                        match do_encap_frag(&enc, &pd, cur, &mut bb) {
                                            EncOut::Completed(n2) => {
                                                last = Some(do_decap(&mut rx, &bb[..(n2).min(bb.len())]));
                                                break;
                                            }
                                            EncOut::Fragmented(n2, c2) => {
                                                let _ = do_decap(&mut rx, &bb[..(n2).min(bb.len())]);
                                                cur = c2;
                                            }
                                            _ => break,
                                        }
                                    }
                                    match last {
                                        Some(d) => d,
                                        None => {
                                            rep.violation("C13|continuation-fails", rank, || (format!("{}: encap_frag into 4200-byte buffers does not finish the PDU", desc), wit()));
                                            continue;
                                        }
                                    }
                                }
                                (_, d) => d.clone(),
                            };
                            match &final_out {
                                DecapOut::Completed { buf: got, meta, .. } => {
                                    if meta.exts != want_exts {
                                        rep.violation(&format!("C13|receiver|extension-list-differs|{}", out.class()), rank, || (format!("{}: receiver recovers extensions {:?}", desc, meta.exts), wit()));
                                    }
                                    if meta.pt != pt || meta.label != l || meta.pdu_len != p || got[..p.min(got.len())] != pd[..] {
                                        rep.violation(&format!("C13|receiver|pdu-or-metadata-differs|{}", out.class()), rank, || (format!("{}: receiver delivers {}", desc, final_out.brief()), wit()));
                                    }
                                }
                                other => {
                                    rep.violation(&format!("C13|receiver|not-delivered|{}|{}|storage{}", out.class(), other.class(), if storage == p { "=pdu" } else { ">pdu" }), rank, || (format!("{} returned {:?}; a receiver knowing every mandatory id (storage {}) answers {}", desc, out, storage, other.brief()), wit()));
                                }
                            }
                        }
                        // (3) receivers missing a mandatory id of the chain must drop the packet as a whole
                        for (mname, m) in &mgrs {
                            let missing = mand_used.iter().any(|id| m.lookup(*id).is_none());
                            for tail in [&[][..], &[0x00, 0x00][..], &[0xC0, 0x05, 0x08, 0x00, 0x31, 0x32, 0x33][..]] {
                                let st = p.max(16);
                                let mut rx = RxS::new(2, st, &[st, st]).build(DefaultCrc {}, m.clone());
                                rx.verif_set_last_label(prior.receiver_last(l).map(|x| x.to_label()));
                                let mut input = buf[..(n).min(buf.len())].to_vec();
                                input.extend_from_slice(tail);
                                let d = do_decap(&mut rx, &input);
                                acc.transitions += 1;
                                acc.calls += 1;
                                acc.compared += 1;
                                acc.outcome(&format!("receiver-{}:{}", if missing { "missing-id" } else { "knows-used-ids" }, d.class()));
                                if missing {
                                    // the first unknown mandatory id met while walking decides
                                    match &d {
                                        // any rejection will do (the statement does not name the error), as long as
                                        // the packet is dropped as a whole and exactly its own length is consumed
                                        DecapOut::Err { consumed, .. } => {
                                            if *consumed != n {
                                                rep.violation(&format!("C13|unknown-mandatory|consumed|tail{}", tail.len()), rank, || (format!("{}: receiver {} rejects the packet but consumes {} instead of its length {}", desc, mname, consumed, n), wit()));
                                            }
                                            // "rejected as a whole": the drop costs the receiver nothing else. The same packet on a
                                            // receiver where a train is pending under the SAME fragment id: every storage buffer
                                            // is still there afterwards (free, or attached to a reassembly)
                                            // ... and the NEXT packet of the same sender (same label, one optional extension, so
                                            // every receiver can decode it) is either refused or delivered under its own label,
                                            // never under the label the receiver remembered from before the dropped packet
                                            if tail.is_empty() && l.is_addr() && prior.receiver_last(l).is_some() {
                                                let mut enc2 = enc.clone();
                                                let mut nb = [0u8; 64];
                                                let o2 = do_encap_ext(&mut enc2, &[0x77], 0, 0x0800, l, &mut nb, &[(0x0101, vec![])]);
                                                if let EncOut::Completed(n2) = o2 {
                                                    let d2 = do_decap(&mut rx, &nb[..n2.min(64)]);
                                                    acc.transitions += 1;
                                                    acc.calls += 2;
                                                    acc.compared += 1;
                                                    if let DecapOut::Completed { meta, .. } = &d2 {
                                                        if meta.label != l {
                                                            rep.violation("C13|unknown-mandatory|next-packet-under-another-label", rank, || (format!("{}: receiver {} drops the packet; the sender's next packet encap_ext(1-byte pdu, label {}, extension 0x0101) -> {:?} ({}) is delivered under label {}", desc, mname, l.short(), o2, hex(&nb[..n2.min(64)]), meta.label.short()), wit()));
                                                        }
                                                    }
                                                }
                                            }
                                            if tail.is_empty() {
                                                let mut rxp = RxS::new(2, st, &[st]);
                                                rxp.mem.set_ctx(CtxS { label: L3B, pt: 0x86DD, frag_id: 6, total_len: 40, pdu_len: 1, from_reuse: false, exts: vec![] }, vec![0u8; st]);
                                                rxp.last = prior.receiver_last(l);
                                                let before = rxp.mem.n_buffers();
                                                let (dp, after) = step_decap(&rxp, &DefaultCrc {}, m, &input);
                                                let handed = matches!(&dp, DecapOut::Err { handed_back: Some(_), .. }) as usize;
                                                acc.transitions += 1;
                                                acc.calls += 1;
                                                if matches!(dp, DecapOut::Err { .. }) && after.mem.n_buffers() + handed != before {
                                                    rep.violation("C13|unknown-mandatory|drop-loses-a-storage", rank, || (format!("{}: receiver {} with a train pending under the same fragment id drops the packet ({}) and ends with {} storage buffers instead of {}", desc, mname, dp.brief(), after.mem.n_buffers() + handed, before), wit()));
                                                }
                                            }
                                        }
                                        other => {
                                            rep.violation(&format!("C13|unknown-mandatory|not-rejected|{}", other.class()), rank, || (format!("{}: receiver {} (missing a mandatory id of the chain) answers {}", desc, mname, other.brief()), wit()));
                                        }
                                    }
                                } else if !matches!(d, DecapOut::Completed { .. } | DecapOut::Fragmented { .. }) {
                                    rep.violation(&format!("C13|receiver-knowing-used-ids|refuses|{}", d.class()), rank, || (format!("{}: receiver {} knows every mandatory id used but answers {}", desc, mname, d.brief()), wit()));
                                }
                            }
                        }
                        if rep.sample_wanted((ci * 1009 + b) as u64) {
                            rep.sample((ci * 1009 + b) as u64, || wit());
                        }
                    }
                }
            }
        }
        rep.merge(acc);
    });
    builtin_managers(&rep);
    let _ = (ext_alphabet, refm::header_fields, Kind::Complete);
    rep.part(json!({"part":"chains","chains":n_chains,"max_chain_length":maxlen,"manager_kinds":n_mgr_kinds}));
    rep.finish(true)
}

/// the crate's own managers: SimpleMandatoryExtensionHeaderManager knows nothing,
/// SignalisationMandatoryExtensionHeaderManager knows 0x0081 and 0x0082 as final extensions without data
fn builtin_managers(rep: &Report) {
    use dvb_gse_rust::gse_decap::{Decapsulator, GseDecapMemory, SimpleGseMemory};
    use dvb_gse_rust::header_extension::{SignalisationMandatoryExtensionHeaderManager, SimpleMandatoryExtensionHeaderManager};
    let mut acc = Acc::default();
    let chains: Vec<Vec<(u16, Vec<u8>)>> = vec![
        vec![(0x0081, vec![])],
        vec![(0x0082, vec![])],
        vec![(0x0101, vec![]), (0x0081, vec![])],
        vec![(0x0303, vec![1, 2, 3, 4]), (0x0082, vec![])],
        vec![(0x0202, vec![9, 8])],
        vec![(0x0010, vec![])],
        vec![(0x0080, vec![])],
        vec![(0x0083, vec![])],
        vec![(0x0202, vec![9, 8]), (0x0011, vec![7])],
    ];
    for c in &chains {
        let last = c.last().unwrap().0;
        let pts: Vec<u16> = if last < 0x0100 { vec![last, 0x0800] } else { vec![0x0800] };
        for pt in pts {
            let mand: Vec<u16> = c.iter().map(|e| e.0).filter(|&i| i < 0x0100).collect();
            // for the Signalisation manager the packet is decodable iff every mandatory id is 0x81/0x82,
            // used as the final extension (pt == id) and carrying no data
            let sig_ok = mand.iter().all(|&i| (i == 0x0081 || i == 0x0082) && pt == i && last == i);
            for p in [0usize, 1, 7] {
                let pd = pdu(p, 0);
                for l in [L6A, L3A, Lbl::Bcast] {
                    let ext_wire: usize = c.iter().map(|e| 2 + e.1.len()).sum();
                    for b in [7 + l.wire_len() + ext_wire - 2, 7 + l.wire_len() + ext_wire + 1, 64] {
                        let mut enc = Encapsulator::new(DefaultCrc {});
                        let mut buf = vec![0u8; b];
                        let out = do_encap_ext(&mut enc, &pd, 4, pt, l, &mut buf, c);
                        acc.states += 1;
                        acc.transitions += 1;
                        acc.calls += 1;
                        let Some(n) = out.len() else { continue };
                        let mut pkts = vec![buf[..(n).min(buf.len())].to_vec()];
                        if let EncOut::Fragmented(_, ctx) = &out {
                            let mut bb = vec![0u8; 64];
                            if let EncOut::Completed(n2) = do_encap_frag(&enc, &pd, *ctx, &mut bb) {
                                pkts.push(bb[..(n2).min(bb.len())].to_vec());
                            }
                        }
                        let wit = || json!({"call":"encap_ext","pdu_len":p,"pdu_pattern":0,"frag_id":4,"pt":pt,"label":l.short(),"buffer_len":b,"extensions":c.iter().map(|e| json!([e.0, hex(&e.1)])).collect::<Vec<_>>(),"packets":pkts.iter().map(|x| hex(x)).collect::<Vec<_>>()});
                        // Simple manager: any mandatory extension => dropped as a whole; none => delivered
                        for which in ["simple", "signalisation"] {
                            let mem = {
                                let mut m = SimpleGseMemory::new(2, 8, 0, 0);
                                let _ = m.provision_storage(vec![0u8; 8].into_boxed_slice());
                                let _ = m.provision_storage(vec![0u8; 8].into_boxed_slice());
                                m
                            };
                            let outs: Vec<DecapOut> = if which == "simple" {
                                let mut d = Decapsulator::new(mem, DefaultCrc {}, SimpleMandatoryExtensionHeaderManager {});
                                pkts.iter().map(|x| observe(catch(|| d.decap(x)))).collect()
                            } else {
                                let mut d = Decapsulator::new(mem, DefaultCrc {}, SignalisationMandatoryExtensionHeaderManager {});
                                pkts.iter().map(|x| observe(catch(|| d.decap(x)))).collect()
                            };
                            acc.transitions += pkts.len() as u64;
                            acc.calls += pkts.len() as u64;
                            acc.compared += 1;
                            let must_deliver = if which == "simple" { mand.is_empty() } else { sig_ok };
                            let delivered = matches!(outs.last(), Some(DecapOut::Completed { buf, meta, .. }) if meta.pdu_len == p && buf[..p] == pd[..] && meta.pt == pt && meta.label == l && meta.exts == *c);
                            acc.outcome(&format!("builtin-{}:{}", which, outs[0].class()));
                            if must_deliver && !delivered {
                                rep.violation(&format!("C13|builtin-manager|{}|not-delivered|{}", which, outs.last().unwrap().class()), p as u64, || (format!("chain {:?} pt {:#06x}: the crate's {} manager knows every mandatory id used, but the receiver answers {:?}", c.iter().map(|e| e.0).collect::<Vec<_>>(), pt, which, outs.iter().map(|o| o.brief()).collect::<Vec<_>>()), wit()));
                            }
                            if !must_deliver {
                                let first_ok = matches!(&outs[0], DecapOut::Err { consumed, .. } if *consumed == pkts[0].len());
                                // a chain the sender's finality notion and the manager's disagree on may also be misparsed; only
                                // chains containing an id the manager does not know at all must be dropped as unknown
                                let unknown = mand.iter().any(|&i| which == "simple" || !(i == 0x0081 || i == 0x0082));
                                if unknown && !first_ok {
                                    rep.violation(&format!("C13|builtin-manager|{}|unknown-mandatory-not-dropped|{}", which, outs[0].class()), p as u64, || (format!("chain {:?} pt {:#06x}: the {} manager does not know a mandatory id of the chain, but the receiver answers {}", c.iter().map(|e| e.0).collect::<Vec<_>>(), pt, which, outs[0].brief()), wit()));
                                }
                            }
                        }
                    }
                }
            }
        }
    }
    rep.merge(acc);
    rep.part(json!({"part":"built-in managers (Simple, Signalisation)","chains":chains.len()}));
}
