//! C17 — the bundled fragment memory honours the memory-trait contract.
//! Depth-bounded BFS (with state merging) over the real SimpleGseMemory driven through the
//! GseDecapMemory trait; every return value and every successor state is compared with the
//! reference "bag of free buffers + at most one saved context per slot". The abstraction
//! function (free list -> bag, slots -> slots) is applied to the real pre-state, so the check
//! is a per-transition refinement check.

use crate::common::*;
use crate::explore::*;
use crate::report::{Acc, Report, Tier};
use crate::rx::*;
use dvb_gse_rust::gse_decap::{DecapMemoryError, GseDecapMemory};
use serde_json::{json, Value};

const MAX_PDU: usize = 4;

#[derive(Clone, Debug, PartialEq, Eq, Hash)]
pub struct St {
    pub mem: MemS,
    pub held_bufs: Vec<Vec<u8>>,
    pub held_ctx: Vec<(CtxS, Vec<u8>)>,
    pub fresh_made: u8,
    pub ctx_made: u8,
}

#[derive(Clone, Debug, PartialEq, Eq)]
pub enum Op {
    ProvisionFresh(usize),
    ProvisionHeld(usize),
    NewPdu,
    NewFrag(u8),
    TakeFrag(u8),
    SaveFrag(usize),
}

pub struct Sys {
    pub slots: usize,
    pub max_fresh: u8,
    /// number of buffers a freshly constructed memory of this configuration accepts before it reports
    /// StorageOverflow: "the free list is full" means this many, for the whole life of the object
    pub limit0: usize,
}

impl Sys {
    pub fn new(slots: usize) -> Sys {
        use dvb_gse_rust::gse_decap::SimpleGseMemory;
        let mut m = SimpleGseMemory::new(slots, MAX_PDU, 0, 0);
        let mut k = 0usize;
        while k < 64 && m.provision_storage(vec![0u8; MAX_PDU].into_boxed_slice()).is_ok() {
            k += 1;
        }
        Sys { slots, max_fresh: (slots + 4) as u8, limit0: k }
    }
}

fn mk_ctx(id: u8, ver: u8) -> CtxS {
    CtxS { label: L3A, pt: 0x0800 + ver as u16, frag_id: id, total_len: 10 + ver as u16, pdu_len: ver as u16 % 3, from_reuse: ver % 2 == 1, exts: vec![] }
}

fn sorted(mut v: Vec<Vec<u8>>) -> Vec<Vec<u8>> {
    v.sort();
    v
}

fn tag_ok(b: &[u8]) -> bool {
    !b.is_empty() && b.iter().all(|&x| x == b[0]) && (3..=5).contains(&b.len())
}

impl Sys {
    fn ids(&self) -> Vec<u8> {
        let n = self.slots as u8;
        let mut v = vec![0u8, 1, n, n + 1, 255];
        v.sort();
        v.dedup();
        v
    }
}

impl System for Sys {
    type State = St;
    type Op = Op;
    fn init(&self) -> Vec<St> {
        vec![St { mem: MemS::empty(self.slots, MAX_PDU), held_bufs: vec![], held_ctx: vec![], fresh_made: 0, ctx_made: 0 }]
    }
    fn ops(&self, s: &St) -> Vec<Op> {
        let mut v = vec![];
        if s.fresh_made < self.max_fresh {
            for sz in [4usize, 3, 5] {
                v.push(Op::ProvisionFresh(sz));
            }
        }
        for i in 0..s.held_bufs.len() {
            v.push(Op::ProvisionHeld(i));
        }
        v.push(Op::NewPdu);
        for id in self.ids() {
            v.push(Op::NewFrag(id));
        }
        for id in self.ids() {
            v.push(Op::TakeFrag(id));
        }
        for i in 0..s.held_ctx.len() {
            v.push(Op::SaveFrag(i));
        }
        v
    }
    fn step(&self, s: &St, op: &Op, acc: &mut Acc) -> StepOut<St> {
        let mut m = s.mem.build();
        let mut n = s.clone();
        let mut viols: Vec<(String, String)> = vec![];
        let pre = &s.mem;
        // contexts by aliasing class (frag_id % slots): the position inside the implementation is not part of the contract
        let pre_cls = pre.by_class().unwrap_or_else(|| vec![None; self.slots]);
        let pre_free = sorted(pre.free.clone());
        let nslots = self.slots;
        acc.calls += 1;
        acc.compared += 1;
        let mut fail = |cl: &str, txt: String| viols.push((format!("C17|{}", cl), format!("{:?} on {:?}: {}", op, pre, txt)));
        // expected successor (reference), filled per op
        let mut exp_free = pre_free.clone();
        let mut exp_slots = pre_cls.clone();
        match op {
            Op::ProvisionFresh(_) | Op::ProvisionHeld(_) => {
                let buf: Vec<u8> = match op {
                    Op::ProvisionFresh(sz) => {
                        n.fresh_made += 1;
                        vec![0x10 + n.fresh_made; *sz]
                    }
                    Op::ProvisionHeld(i) => n.held_bufs.remove(*i),
                    _ => unreachable!(),
                };
                // 'full' is the implementation's own limit, measured on a freshly constructed memory (not a constant of
                // the harness, and not whatever a capacity field happens to report at this moment)
                let full = pre.free.len() >= self.limit0;
                let small = buf.len() < MAX_PDU;
                let r = catch(|| m.provision_storage(buf.clone().into_boxed_slice()));
                match r {
                    Err(p) => {
                        fail(&format!("panic|{}", p.coarse()), format!("panics at {}", p.0));
                        return StepOut { next: None, viols };
                    }
                    Ok(Ok(())) => {
                        acc.outcome("provision:Ok");
                        if full {
                            fail("provision|accepted-when-full", format!("accepted although the free list already holds {} buffers (its capacity)", pre.free.len()));
                        }
                        if small {
                            fail("provision|accepted-too-small", format!("accepted a {}-byte buffer, configured PDU size {}", buf.len(), MAX_PDU));
                        }
                        exp_free.push(buf);
                    }
                    Ok(Err(e)) => {
                        let (k, hb) = mem_err_kind(&e);
                        acc.outcome(&format!("provision:Err({})", k));
                        match (k.as_str(), hb) {
                            ("StorageOverflow", Some(b)) => {
                                if !full {
                                    fail("provision|overflow-when-not-full", format!("StorageOverflow with only {} free buffers", pre.free.len()));
                                }
                                if b != buf {
                                    fail("provision|other-buffer-handed-back", "the buffer handed back is not the one passed".into());
                                }
                                n.held_bufs.push(b);
                            }
                            ("BufferTooSmall", Some(b)) => {
                                if !small {
                                    fail("provision|too-small-for-big-enough", format!("BufferTooSmall for a {}-byte buffer", buf.len()));
                                }
                                if b != buf {
                                    fail("provision|other-buffer-handed-back", "the buffer handed back is not the one passed".into());
                                }
                                n.held_bufs.push(b);
                            }
                            (other, _) => fail("provision|unexpected-error", format!("unexpected error {}", other)),
                        }
                    }
                }
            }
            Op::NewPdu => match catch(|| m.new_pdu()) {
                Err(p) => {
                    fail(&format!("panic|{}", p.coarse()), format!("panics at {}", p.0));
                    return StepOut { next: None, viols };
                }
                Ok(Ok(b)) => {
                    acc.outcome("new_pdu:Ok");
                    let b = b.to_vec();
                    match exp_free.iter().position(|x| *x == b) {
                        Some(i) => {
                            exp_free.remove(i);
                        }
                        None => fail("new_pdu|buffer-not-from-free-list", format!("returned a buffer {} that was not free", hex(&b))),
                    }
                    n.held_bufs.push(b);
                }
                Ok(Err(e)) => {
                    let (k, _) = mem_err_kind(&e);
                    acc.outcome(&format!("new_pdu:Err({})", k));
                    if !pre.free.is_empty() {
                        fail("new_pdu|fails-with-free-buffers", format!("Err({}) with {} free buffers", k, pre.free.len()));
                    }
                }
            },
            Op::NewFrag(id) => {
                n.ctx_made = (n.ctx_made + 1) % 4;
                let ctx = mk_ctx(*id, n.ctx_made);
                let slot = *id as usize % nslots;
                let r = catch(|| m.new_frag(ctx.to_ctx()));
                match r {
                    Err(p) => {
                        fail(&format!("panic|{}", p.coarse()), format!("panics at {}", p.0));
                        return StepOut { next: None, viols };
                    }
                    Ok(Ok((c, b))) => {
                        let c = CtxS::from_ctx(&c);
                        let b = b.to_vec();
                        if c != ctx {
                            fail("new_frag|context-altered", "the returned context is not the one passed".into());
                        }
                        match &pre_cls[slot] {
                            Some((_, old_buf)) => {
                                acc.outcome("new_frag:Ok(replaced)");
                                if b != *old_buf {
                                    fail("new_frag|does-not-reuse-slot-buffer", "the slot was occupied but the buffer returned is not the slot's buffer".into());
                                }
                                exp_slots[slot] = None;
                            }
                            None => {
                                acc.outcome("new_frag:Ok(free buffer)");
                                match exp_free.iter().position(|x| *x == b) {
                                    Some(i) => {
                                        exp_free.remove(i);
                                    }
                                    None => fail("new_frag|buffer-not-from-free-list", format!("returned a buffer {} that was not free", hex(&b))),
                                }
                            }
                        }
                        n.held_ctx.push((c, b));
                    }
                    Ok(Err(e)) => {
                        let (k, _) = mem_err_kind(&e);
                        acc.outcome(&format!("new_frag:Err({})", k));
                        if pre_cls[slot].is_some() {
                            fail("new_frag|fails-on-occupied-slot", format!("Err({}) although the slot holds a context whose buffer must be reused", k));
                            exp_slots[slot] = None; // whatever happened, resynchronised below
                        } else if !pre.free.is_empty() {
                            fail("new_frag|fails-with-free-buffers", format!("Err({}) with {} free buffers", k, pre.free.len()));
                        }
                    }
                }
            }
            Op::TakeFrag(id) => {
                let slot = *id as usize % nslots;
                let r = catch(|| m.take_frag(*id));
                let holds = matches!(&pre_cls[slot], Some((c, _)) if c.frag_id == *id);
                match r {
                    Err(p) => {
                        fail(&format!("panic|{}", p.coarse()), format!("panics at {}", p.0));
                        return StepOut { next: None, viols };
                    }
                    Ok(Ok((c, b))) => {
                        acc.outcome("take_frag:Ok");
                        let got = (CtxS::from_ctx(&c), b.to_vec());
                        if !holds {
                            fail("take_frag|returns-context-of-other-id", format!("Ok for id {} but the slot holds {:?}", id, pre_cls[slot].as_ref().map(|x| x.0.frag_id)));
                        } else if Some(&got) != pre_cls[slot].as_ref() {
                            fail("take_frag|not-the-saved-context", "the returned context/buffer differ from what was saved".into());
                        }
                        exp_slots[slot] = None;
                        n.held_ctx.push(got);
                    }
                    Ok(Err(e)) => {
                        let (k, _) = mem_err_kind(&e);
                        acc.outcome(&format!("take_frag:Err({}){}", k, if pre_cls[slot].is_some() { ":slot-occupied-by-other-id" } else { ":slot-empty" }));
                        if holds {
                            fail("take_frag|fails-for-saved-id", format!("Err({}) although a context was saved under id {}", k, id));
                        } else if k != "UndefinedId" {
                            fail("take_frag|unexpected-error", format!("Err({}) instead of UndefinedId", k));
                        }
                        // memory must be unchanged: exp_* already equal the pre-state
                    }
                }
            }
            Op::SaveFrag(i) => {
                let (c, b) = n.held_ctx.remove(*i);
                let slot = c.frag_id as usize % nslots;
                let r = catch(|| m.save_frag((c.to_ctx(), b.clone().into_boxed_slice())));
                match r {
                    Err(p) => {
                        fail(&format!("panic|{}", p.coarse()), format!("panics at {}", p.0));
                        return StepOut { next: None, viols };
                    }
                    Ok(Ok(())) => {
                        acc.outcome("save_frag:Ok");
                        if pre_cls[slot].is_some() {
                            fail("save_frag|overwrites-occupied-slot", "accepted although the slot is occupied".into());
                        }
                        exp_slots[slot] = Some((c, b));
                    }
                    Ok(Err(e)) => {
                        let (k, _) = mem_err_kind(&e);
                        acc.outcome(&format!("save_frag:Err({})", k));
                        if pre_cls[slot].is_none() {
                            fail("save_frag|refused-on-empty-slot", format!("Err({}) although the slot is empty", k));
                        }
                    }
                }
            }
        }
        let post = MemS::of(&m);
        let opk = format!("{:?}", op).split('(').next().unwrap().to_string();
        // The limit of the free list is fixed at initialisation: whatever the history, the LIVE object (not a restored
        // one) must accept exactly limit0 - free buffers more and refuse the next one. A restored snapshot cannot
        // show a limit that drifted, the continuation on the live object does.
        {
            let room = self.limit0.saturating_sub(post.free.len());
            let mut accepted = 0usize;
            let mut refused_early: Option<String> = None;
            for _ in 0..room {
                match catch(|| m.provision_storage(vec![0xEEu8; MAX_PDU].into_boxed_slice())) {
                    Ok(Ok(())) => accepted += 1,
                    Ok(Err(e)) => {
                        refused_early = Some(mem_err_kind(&e).0);
                        break;
                    }
                    Err(p) => {
                        refused_early = Some(format!("PANIC at {}", p.0));
                        break;
                    }
                }
            }
            acc.calls += room as u64 + 1;
            if let Some(k) = refused_early {
                fail(&format!("limit|refuses-before-full|{}", opk), format!("after the call the free list holds {} buffers; provisioning refused with {} after {} more although a fresh memory accepts {}", post.free.len(), k, accepted, self.limit0));
            } else if post.free.len() <= self.limit0 {
                match catch(|| m.provision_storage(vec![0xEFu8; MAX_PDU].into_boxed_slice())) {
                    Ok(Ok(())) => fail(&format!("limit|accepts-beyond-full|{}", opk), format!("after the call the free list was filled up to {} buffers (what a fresh memory accepts) and one more was still accepted", self.limit0)),
                    Ok(Err(e)) => {
                        let (k, hb) = mem_err_kind(&e);
                        if k != "StorageOverflow" || hb.as_deref() != Some(&[0xEFu8; MAX_PDU][..]) {
                            fail(&format!("limit|wrong-refusal|{}", opk), format!("a full free list answered {} / handed back {:?}", k, hb.map(|b| hex(&b))));
                        }
                    }
                    Err(p) => fail(&format!("panic|{}", p.coarse()), format!("provision on a full free list panics at {}", p.0)),
                }
            }
        }
        let alias = matches!(op, Op::TakeFrag(id) | Op::NewFrag(id) if matches!(&pre_cls[*id as usize % nslots], Some((c, _)) if c.frag_id != *id));
        let sfx = format!("{}{}", opk, if alias { "|aliasing-id" } else { "" });
        if sorted(post.free.clone()) != sorted(exp_free) {
            fail(&format!("state|free-buffers|{}", sfx), format!("free buffers after the call {:?} differ from the reference bag", post.free.iter().map(|b| hex(b)).collect::<Vec<_>>()));
        }
        let post_cls = post.by_class();
        if post_cls.is_none() {
            fail(&format!("state|two-contexts-in-one-slot|{}", sfx), format!("two contexts of one aliasing class are stored: {:?}", post.frags));
        }
        if post_cls.is_some() && post_cls.as_ref() != Some(&exp_slots) {
            fail(&format!("state|slots|{}", sfx), format!("slots after the call {:?} differ from the reference", post.frags));
        }
        for b in post.free.iter().chain(post.frags.iter().flatten().map(|f| &f.1)).chain(n.held_bufs.iter()).chain(n.held_ctx.iter().map(|c| &c.1)) {
            if !tag_ok(b) {
                fail("buffer-contents-modified", format!("buffer {} no longer carries its uniform tag", hex(b)));
            }
        }
        n.mem = post;
        n.held_bufs.sort();
        n.held_ctx.sort_by(|a, b| (a.0.frag_id, a.0.pt, &a.1).cmp(&(b.0.frag_id, b.0.pt, &b.1)));
        StepOut { next: Some(n), viols }
    }
    fn op_json(&self, op: &Op) -> Value {
        json!(format!("{:?}", op))
    }
}

pub fn run(tier: Tier) -> i32 {
    let rep = Report::new("C17", tier);
    rep.set_rule("breadth-first search with state merging over the real SimpleGseMemory (snapshot/restore through the capacity-preserving hook, never Clone) for memories of 1..=3 slots (thorough 1..=4), configured PDU size 4, uniquely tagged buffers of sizes 3/4/5, ops provision(fresh|held) / new_pdu / new_frag(id) / take_frag(id) / save_frag(held context) over ids {0,1,n,n+1,255}; depth 7 (6 for 3 slots; thorough: 9 for 1 slot, 8 for 2 slots, 7 for 3 and 4 slots); per-transition refinement check against the bag-and-slots reference, plus after every transition a continuation on the live object: it must accept exactly as many more buffers as a fresh memory's limit leaves room for and refuse the next one; distinct = (op, outcome)");
    rep.assume("held items are kept sorted (the caller's bag is unordered); the free-list order is kept exactly");
    rep.assume("when the free list is full AND the buffer is too small either error is accepted (the statement does not order them)");
    let slot_counts: Vec<usize> = if tier.thorough() { vec![1, 2, 3, 4] } else { vec![1, 2, 3] };
    for n in slot_counts {
        RxS { last: None, mem: MemS::empty(n, MAX_PDU) }.check_fidelity();
        let sys = Sys::new(n);
        let depth = if tier.thorough() { if n == 1 { 9 } else if n == 2 { 8 } else { 7 } } else if n <= 2 { 7 } else { 6 };
        let ex = explore(&sys, &Limits { max_states: if tier.thorough() { 6_000_000 } else { 1_500_000 }, max_depth: depth }, &rep, &format!("memory-{}-slots", n));
        let k = ex.states.len();
        for i in [k / 3, k / 2, k - 1] {
            let path = ex.path(i);
            rep.sample((n * 1000 + i) as u64, || json!({"slots": n, "history": path.iter().map(|o| format!("{:?}", o)).collect::<Vec<_>>(), "state": format!("{:?}", ex.states[i].mem)}));
        }
    }
    rep.finish(true)
}
