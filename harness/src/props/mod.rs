pub mod c01;
pub mod c06;
pub mod c09;
pub mod c11;
pub mod c12;
pub mod c14;
pub mod c18;
