//! C12 — the default CRC is CRC-32/MPEG-2 over total length, protocol type, label, PDU, and this
//! is the value the sender writes and the receiver recomputes.

use crate::common::*;
use crate::refm::{self, crc_ref, crc_update};
use crate::report::{Acc, Report, Tier};
use crate::rx::*;
use crate::tx::*;
use dvb_gse_rust::crc::{CrcCalculator, DefaultCrc};
use dvb_gse_rust::gse_encap::Encapsulator;
use rayon::prelude::*;
use serde_json::json;

fn real(total: u16, pt: u16, label: &[u8], pdu: &[u8]) -> Result<u32, Panicked> {
    catch(|| DefaultCrc {}.calculate_crc32(pdu, pt, total, label))
}

fn cmp(rep: &Report, acc: &mut Acc, part: &'static str, rank: u64, total: u16, pt: u16, label: &[u8], pdu: &[u8]) {
    acc.states += 1;
    acc.transitions += 1;
    acc.calls += 1;
    acc.compared += 1;
    acc.sout(part, label.len() as u32);
    let want = crc_ref(total, pt, label, pdu);
    match real(total, pt, label, pdu) {
        Err(p) => rep.violation(&format!("C12|function|panic|{}", p.coarse()), rank, || (format!("calculate_crc32 panics at {}", p.0), json!({"total_len":total,"pt":pt,"label":hex(label),"pdu":hexs(pdu)}))),
        Ok(got) => {
            if got != want {
                rep.violation(&format!("C12|function|value|{}", part), rank, || {
                    (format!("DefaultCrc(total_len={:#06x}, pt={:#06x}, label={}, pdu={}) = {:#010x}, CRC-32/MPEG-2 of total|pt|label|pdu = {:#010x}", total, pt, hex(label), hexs(pdu), got, want),
                     json!({"call":"calculate_crc32","total_len":total,"pt":pt,"label":hex(label),"pdu":hex(&pdu[..pdu.len().min(128)]),"pdu_len":pdu.len(),"got":got,"want":want}))
                });
            }
        }
    }
}

pub fn run(tier: Tier) -> i32 {
    let rep = Report::new("C12", tier);
    rep.set_rule("A: DefaultCrc vs a bit-serial reference on: all PDUs of length 0..=2 x label lengths 0/3/6 x 6 (total length, protocol type) pairs; PDUs reaching total lengths 65525..=65535 with each of their last 8 bytes changed in turn; every byte value at every position of messages up to 96 bytes (thorough 4200, plus position windows of a 65545-byte message) over two backgrounds (each of the 256 table entries selected at each position with two register contents); all 65536 total lengths and all 65536 protocol types (thorough: the full 2^32 square of (total length, protocol type) with empty label and PDU); field-order messages. B: a recording CrcCalculator around DefaultCrc injected into the real Encapsulator and Decapsulator for every fragmented transfer of the small regime: arguments, big-endian trailer, receiver recomputation. distinct = part x label length / outcome classes");
    rep.assume("'for every input' cannot be enumerated: the table-index x position sweep covers every table entry at every offset and every field boundary; linearity of the register update is an external mathematical fact");
    part_a(&rep, tier);
    part_b(&rep, tier);
    part_c(&rep);
    rep.finish(true)
}

fn part_a(rep: &Report, tier: Tier) {
    // all small PDUs
    let pairs: [(u16, u16); 6] = [(0, 0), (2, 0x0800), (0xFFFF, 0xFFFF), (0x1234, 0x86DD), (0x00FF, 0xFF00), (0x8000, 0x0001)];
    let labels: [Vec<u8>; 3] = [vec![], vec![0x31, 0x32, 0x33], vec![0x0A, 0x1B, 0x2C, 0x3D, 0x4E, 0x5F]];
    (0..=0xFFFFu32).collect::<Vec<_>>().par_chunks(1024).for_each(|chunk| {
        let mut acc = Acc::default();
        for &w in chunk {
            let two = [(w >> 8) as u8, w as u8];
            let mut pdus: Vec<&[u8]> = vec![&two[..]];
            if w < 256 {
                pdus.push(&two[1..]);
            }
            if w == 0 {
                pdus.push(&[]);
            }
            for pd in pdus {
                for l in &labels {
                    for &(t, pt) in &pairs {
                        cmp(rep, &mut acc, "small-pdu", w as u64, t, pt, l, pd);
                    }
                }
            }
        }
        rep.merge(acc);
    });
    rep.part(json!({"part":"A1 all PDUs of length 0..=2","cells":65793 * 3 * 6}));

    // every byte value at every position
    let maxn = if tier.thorough() { 4200 } else { 96 };
    let mut lens: Vec<usize> = (4..=maxn.min(96)).collect();
    if tier.thorough() {
        lens.extend([97, 128, 255, 256, 257, 1000, 4095, 4096, 4097, 4200]);
    }
    let jobs: Vec<(usize, usize, u8)> = lens.iter().flat_map(|&n| [0usize, 3, 6].into_iter().flat_map(move |ll| [0x00u8, 0xFF].into_iter().map(move |bg| (n, ll, bg)))).filter(|&(n, ll, _)| n >= 4 + ll).collect();
    jobs.par_iter().for_each(|&(n, ll, bg)| {
        if rep.over_time() {
            rep.cap("A2: wall cap");
            return;
        }
        let mut acc = Acc::default();
        let mut msg = vec![bg; n];
        for i in 0..n {
            for v in 0..=255u8 {
                msg[i] = v;
                let t = u16::from_be_bytes([msg[0], msg[1]]);
                let pt = u16::from_be_bytes([msg[2], msg[3]]);
                cmp(rep, &mut acc, "position-sweep", (n * 1000 + i) as u64, t, pt, &msg[4..4 + ll], &msg[4 + ll..]);
            }
            msg[i] = bg;
        }
        rep.merge(acc);
    });
    rep.part(json!({"part":"A2 every byte value at every position","message_lengths":lens.len(),"max_len":lens.iter().max()}));

    // PDUs at the upper end of the 16-bit total length (both tiers): every PDU length that makes total length reach
    // 65525..=65535 with label lengths 0/3/6, two contents, and each of the last 8 PDU bytes changed in turn (a
    // calculator that stops before the end of a maximal message returns the same value for all of them)
    let top: Vec<(usize, usize)> = [0usize, 3, 6].into_iter().flat_map(|ll| (65525usize..=65535).map(move |tot| (tot - 2 - ll, ll))).collect();
    top.par_iter().for_each(|&(n, ll)| {
        let mut acc = Acc::default();
        let lab = vec![0xA7u8; ll];
        for bg in [0x00u8, 0x5C] {
            let mut pd: Vec<u8> = (0..n).map(|i| bg ^ (i % 251) as u8).collect();
            let t = (n + 2 + ll) as u16;
            cmp(rep, &mut acc, "top-of-total-length", n as u64, t, 0x0800, &lab, &pd);
            for k in 1..=8usize.min(n) {
                pd[n - k] ^= 0xFF;
                cmp(rep, &mut acc, "top-of-total-length", n as u64, t, 0xFFFF, &lab, &pd);
                pd[n - k] ^= 0xFF;
            }
        }
        rep.merge(acc);
    });
    rep.part(json!({"part":"A2b PDUs at the top of the 16-bit total length","total_lengths":"65525..=65535","label_lengths":[0,3,6],"last_bytes_changed":8}));

    if tier.thorough() {
        // windows of positions in a maximal message (65535-byte total length worth of data)
        let n = 65545usize;
        let mut poss: Vec<usize> = (0..64).collect();
        poss.extend(n - 64..n);
        for k in [4096usize, 32768, 65535] {
            poss.extend(k - 4..k + 4);
        }
        let base_ff = vec![0xFFu8; n];
        let base_00 = vec![0x00u8; n];
        poss.par_iter().for_each(|&i| {
            let mut acc = Acc::default();
            for (bg, base) in [(0xFFu8, &base_ff), (0u8, &base_00)] {
                let _ = bg;
                let mut msg = base.clone();
                for v in (0..=255u8).step_by(5) {
                    msg[i] = v;
                    let t = u16::from_be_bytes([msg[0], msg[1]]);
                    let pt = u16::from_be_bytes([msg[2], msg[3]]);
                    cmp(rep, &mut acc, "position-sweep-long", i as u64, t, pt, &msg[4..10], &msg[10..]);
                }
            }
            rep.merge(acc);
        });
        rep.part(json!({"part":"A2b position windows of a 65545-byte message","positions":poss.len(),"byte_values":"0,5,..,255"}));
    }

    // header fields
    let pt_q: [u16; 8] = [0x0000, 0x0081, 0x0100, 0x05FF, 0x0600, 0x0800, 0x86DD, 0xFFFF];
    (0..=0xFFFFu32).collect::<Vec<_>>().par_chunks(2048).for_each(|chunk| {
        let mut acc = Acc::default();
        for &w in chunk {
            for &q in &pt_q {
                cmp(rep, &mut acc, "all-total-lengths", w as u64, w as u16, q, &[], &[]);
                cmp(rep, &mut acc, "all-protocol-types", w as u64, q, w as u16, &[], &[]);
            }
        }
        rep.merge(acc);
    });
    rep.part(json!({"part":"A3 all total lengths x 8 protocol types, all protocol types x 8 total lengths"}));
    if tier.thorough() {
        // full 2^32 square, reference register advanced incrementally per total length
        (0..=0xFFFFu32).collect::<Vec<_>>().par_chunks(256).for_each(|chunk| {
            if rep.over_time() {
                rep.cap("A3 full square: wall cap");
                return;
            }
            let mut acc = Acc::default();
            let crc = DefaultCrc {};
            for &t in chunk {
                let r0 = crc_update(0xFFFF_FFFF, &(t as u16).to_be_bytes());
                for pt in 0..=0xFFFFu32 {
                    let want = crc_update(r0, &(pt as u16).to_be_bytes());
                    let got = crc.calculate_crc32(&[], pt as u16, t as u16, &[]);
                    if got != want {
                        rep.violation("C12|function|value|full-square", ((t as u64) << 16) | pt as u64, || (format!("DefaultCrc(total_len={:#06x}, pt={:#06x}, no label, empty pdu) = {:#010x}, reference {:#010x}", t, pt, got, want), json!({"total_len":t,"pt":pt})));
                    }
                }
                acc.states += 65536;
                acc.transitions += 65536;
                acc.calls += 65536;
                acc.compared += 65536;
            }
            rep.merge(acc);
        });
        rep.part(json!({"part":"A3b full (total length, protocol type) square","cells":"2^32"}));
    }
    // field order: each field has a distinct fill, so any permutation of the fields changes the result
    let mut acc = Acc::default();
    for (t, pt, l, pd) in [(0x1122u16, 0x3344u16, vec![0x55u8; 3], vec![0x66u8; 5]), (0xA1A2, 0xB1B2, vec![0xC1, 0xC2, 0xC3, 0xC4, 0xC5, 0xC6], vec![0xD1, 0xD2]), (0x0102, 0x0304, vec![], vec![5, 6, 7, 8])] {
        cmp(rep, &mut acc, "field-order", 0, t, pt, &l, &pd);
    }
    rep.merge(acc);
}

/// B: wiring
fn part_b(rep: &Report, tier: Tier) {
    let maxp = if tier.thorough() { 40 } else { 20 };
    #[derive(Clone, Copy, Debug, PartialEq)]
    enum Lk {
        Plain(Lbl),
        Substituted(Lbl),
        ExplicitReuseAfter(Lbl),
        /// a limit of 3 consecutive re-use labels, ANOTHER label sent twice (in full, then as re-use: the counter is
        /// running), then this label, written in full
        PlainAfterCountedReuse(Lbl),
    }
    let lks = [Lk::Plain(L6A), Lk::Plain(L3A), Lk::Plain(Lbl::Bcast), Lk::Substituted(L6A), Lk::Substituted(L3A), Lk::ExplicitReuseAfter(L6B), Lk::PlainAfterCountedReuse(L6B), Lk::PlainAfterCountedReuse(L3B)];
    let cells: Vec<(usize, usize)> = (0..=maxp).flat_map(|p| (0..lks.len()).map(move |k| (p, k))).collect();
    cells.par_iter().for_each(|&(p, k)| {
        let mut acc = Acc::default();
        let lk = lks[k];
        let pd = pdu(p, 0);
        let pt = [0x0800u16, 0x86DD, 0xFFFF][p % 3];
        for b1 in 7..=(4 + 6 + p + 1 + 4) {
            for (b2, via) in [(7usize, 0u8), (8, 0), (9, 1), (13, 0), (70000, 1), (64, 0), (9, 2), (64, 2)] {
                // via 0: encap; 1: encap_ext with one optional extension; 2: encap_ext with an optional extension followed
                // by a final mandatory one (the protocol type IS that extension's id)
                let via_ext = via != 0;
                let pt = if via == 2 { 0x0081 } else { pt };
                let exts: Vec<(u16, Vec<u8>)> = match via { 0 => vec![], 1 => vec![(0x0202, vec![0xE1, 0xE2])], _ => vec![(0x0303, vec![1, 2, 3, 4]), (0x0081, vec![])] };
                let rec_tx = RecCrc::new();
                let rec_rx = RecCrc::new();
                let mut enc = Encapsulator::new(rec_tx.clone());
                let mut rx = RxS::new(2, p.max(1), &[p.max(1), p.max(1), p.max(1)]).build(rec_rx.clone(), crate::rxalpha::mgr_std());
                let mut scratch = [0u8; 32];
                let (pass, intended, wire_label): (Lbl, Lbl, Vec<u8>) = match lk {
                    Lk::Plain(l) => (l, l, l.bytes()),
                    Lk::PlainAfterCountedReuse(l) => {
                        enc.enable_re_use_label_with_max_consecutive(3);
                        for k in 0..2u8 {
                            let o = do_encap(&mut enc, &[1 + k], 0, 0x0800, L3A, &mut scratch);
                            if let DecapOut::Completed { buf, .. } = do_decap(&mut rx, &scratch[..o.len().unwrap_or(0).min(32)]) {
                                let _ = rx.provision_storage(buf.into_boxed_slice());
                            }
                        }
                        (l, l, l.bytes())
                    }
                    Lk::Substituted(l) | Lk::ExplicitReuseAfter(l) => {
                        let o = do_encap(&mut enc, &[1], 0, 0x0800, l, &mut scratch);
                        if let DecapOut::Completed { buf, .. } = do_decap(&mut rx, &scratch[..o.len().unwrap_or(0)]) {
                            let _ = rx.provision_storage(buf.into_boxed_slice());
                        }
                        if matches!(lk, Lk::Substituted(_)) { (l, l, vec![]) } else { (Lbl::ReUse, l, vec![]) }
                    }
                };
                rec_tx.take();
                rec_rx.take();
                let mut buf = vec![0u8; b1];
                let out = if via_ext { do_encap_ext(&mut enc, &pd, 5, pt, pass, &mut buf, &exts) } else { do_encap(&mut enc, &pd, 5, pt, pass, &mut buf) };
                acc.states += 1;
                acc.transitions += 1;
                acc.calls += 1;
                let EncOut::Fragmented(n, mut ctx) = out else {
                    acc.outcome(&format!("B:first:{}", out.class()));
                    continue;
                };
                acc.outcome("B:first:Fragmented");
                let rank = (p * 1000 + b1) as u64;
                let wit = || json!({"pdu_len":p,"pdu_pattern":0,"pt":pt,"label_kind":format!("{:?}",lk),"first_buffer":b1,"next_buffers":b2,"via":(["encap", "encap_ext with one optional extension", "encap_ext with an optional and a final mandatory extension"][via as usize])});
                // what was written?
                let written_lt = (buf[0] >> 4) & 3;
                let on_wire: Vec<u8> = if written_lt == 3 { vec![] } else { pass.bytes() };
                let calls = rec_tx.take();
                acc.compared += 1;
                let want_total = (2 + on_wire.len() + p) as u16;
                // the call whose result became the context CRC must have had the right arguments
                // (the number of calls is not constrained by the property)
                match calls.iter().find(|c| c.ret == ctx.crc) {
                    None => rep.violation("C12|wiring|context-crc", rank, || (format!("the context CRC {:#010x} is not the value returned by any call of the CRC calculator ({} calls)", ctx.crc, calls.len()), wit())),
                    Some(c) => {
                        if c.pdu != pd || c.pt != pt || c.total != want_total || c.label != on_wire {
                            rep.violation(&format!("C12|wiring|sender-args|{}|{}", if matches!(lk, Lk::Plain(_) | Lk::PlainAfterCountedReuse(_)) { "plain" } else { "reuse" }, if via_ext { "encap_ext" } else { "encap" }), rank, || (format!("encap passed (pdu {} bytes, pt {:#06x}, total_len {}, label {}) to the CRC calculator; expected (whole PDU {} bytes, pt {:#06x}, total_len {} = 2 + label as written + PDU, label as written {})", c.pdu.len(), c.pt, c.total, hex(&c.label), p, pt, want_total, hex(&on_wire)), wit()));
                        }
                    }
                }
                let _ = wire_label;
                let want_crc = crc_ref(want_total, pt, &on_wire, &pd);
                let mut d = do_decap(&mut rx, &buf[..(n).min(buf.len())]);
                acc.transitions += 1;
                let mut guard = 0;
                let mut last_pkt: Vec<u8> = vec![];
                loop {
                    guard += 1;
                    if guard > p + 8 {
                        break;
                    }
                    let mut b = vec![0u8; b2];
                    let o = do_encap_frag(&enc, &pd, ctx, &mut b);
                    acc.transitions += 1;
                    acc.calls += 1;
                    match o {
                        EncOut::Fragmented(n2, c2) => {
                            d = do_decap(&mut rx, &b[..(n2).min(b.len())]);
                            acc.transitions += 1;
                            ctx = c2;
                        }
                        EncOut::Completed(n2) => {
                            last_pkt = b[..(n2).min(b.len())].to_vec();
                            d = do_decap(&mut rx, &b[..(n2).min(b.len())]);
                            acc.transitions += 1;
                            break;
                        }
                        _ => break,
                    }
                }
                if last_pkt.len() >= 4 {
                    acc.compared += 1;
                    let tr = &last_pkt[last_pkt.len() - 4..];
                    if tr != want_crc.to_be_bytes() {
                        rep.violation(&format!("C12|wiring|trailer|{}|{}", if matches!(lk, Lk::Plain(_) | Lk::PlainAfterCountedReuse(_)) { "plain" } else { "reuse" }, if via_ext { "encap_ext" } else { "encap" }), rank, || (format!("end fragment trailer {} is not the big-endian CRC-32/MPEG-2 {:#010x} of total|pt|label as written|PDU", hex(tr), want_crc), wit()));
                    }
                    let rc = rec_rx.take();
                    acc.compared += 1;
                    // the receiver must recompute over the same four arguments (at least once)
                    if !rc.iter().any(|c| c.pdu == pd && c.pt == pt && c.total == want_total && c.label == on_wire) {
                        let seen: Vec<String> = rc.iter().map(|c| format!("(pdu {} bytes, pt {:#06x}, total_len {}, label {})", c.pdu.len(), c.pt, c.total, hex(&c.label))).collect();
                        rep.violation(&format!("C12|wiring|receiver-args|{}", if matches!(lk, Lk::Plain(_) | Lk::PlainAfterCountedReuse(_)) { "plain" } else { "reuse" }), rank, || (format!("decap never recomputed the CRC over (PDU {} bytes, pt {:#06x}, total_len {}, label as written {}); calls seen: {:?}; outcome {}", p, pt, want_total, hex(&on_wire), seen, d.brief()), wit()));
                    }
                    match &d {
                        DecapOut::Completed { meta, .. } if meta.label == intended => acc.outcome("B:delivered"),
                        other => {
                            acc.outcome(&format!("B:{}", other.class()));
                            rep.violation(&format!("C12|wiring|not-delivered|{}", other.class()), rank, || (format!("train with a correct reference CRC is not delivered with label {}: {}", intended.short(), other.brief()), wit()));
                        }
                    }
                }
                if rep.sample_wanted(rank * 7 + b2 as u64) {
                    rep.sample(rank, || wit());
                }
            }
        }
        rep.merge(acc);
    });
    let _ = refm::header_fields;
    rep.part(json!({"part":"B wiring","pdu_lengths":format!("0..={}",maxp),"label_kinds":8,"first_buffers":"7..=p+15","next_buffers":[7,8,9,13,64,70000],"via":"encap, encap_ext (one optional extension), encap_ext (optional + final mandatory extension, protocol type = its id)"}));
}

/// C: hand-built trains on the receiver side, conformant and with an inconsistent total length:
/// whenever the receiver calls the CRC calculator for a train, the label argument must be empty
/// exactly when the first fragment used label re-use, the label bytes otherwise, and the other
/// arguments must be the received total length, the protocol type and the reassembled bytes.
fn part_c(rep: &Report) {
    use crate::refm::Desc;
    let mut acc = Acc::default();
    let x = [0x11u8, 0x12, 0x13, 0x14, 0x15, 0x16];
    for (first_label, prime) in [(Lbl::ReUse, Some(L3A)), (Lbl::ReUse, Some(L6A)), (L3A, None), (L6A, None), (Lbl::Bcast, None)] {
        let resolved = prime.unwrap_or(first_label);
        for total_counts in [0usize, 3, 6] {
          for abandoned in ["none", "explicit-same-id", "reuse-same-id", "explicit-aliasing-id", "reuse-aliasing-id"] {
           // what happens to the receiver's label memory between the first fragment and the rest of the train: what is
           // recomputed at the end fragment must depend on the first fragment only, not on the memory at that moment
           for between in ["nothing", "reset", "broadcast-packet", "other-label-packet"] {
            if between != "nothing" && abandoned != "none" && abandoned != "reuse-same-id" {
                continue;
            }
            for crc_label in [vec![], L3A.bytes(), L6A.bytes()] {
                let total = (x.len() + 2 + total_counts) as u16;
                let crc = crc_ref(total, 0x0800, &crc_label, &x);
                let mut seq: Vec<Vec<u8>> = vec![];
                // an earlier train left unfinished in the slot the train under test is going to claim: what the
                // receiver recomputes must depend on the first fragment of THIS train only
                let y = [0x21u8, 0x22, 0x23];
                match abandoned {
                    "explicit-same-id" => seq.push(Desc::first(L3B, 0x86DD, 0, 9 + 3, &y).print()),
                    "explicit-aliasing-id" => seq.push(Desc::first(L3B, 0x86DD, 2, 9 + 3, &y).print()),
                    "reuse-same-id" | "reuse-aliasing-id" => {
                        seq.push(Desc::complete(L3B, 0x86DD, &[0x7B]).print());
                        seq.push(Desc::first(Lbl::ReUse, 0x86DD, if abandoned == "reuse-same-id" { 0 } else { 2 }, 9, &y).print());
                    }
                    _ => {}
                }
                if let Some(pl) = prime {
                    seq.push(Desc::complete(pl, 0x0800, &[0x7A]).print());
                }
                seq.push(Desc::first(first_label, 0x0800, 0, total, &x[..2]).print());
                seq.push(Desc::inter(0, &x[2..4]).print());
                seq.push(Desc::end(0, &x[4..], crc).print());
                let rec = RecCrc::new();
                let mut rx = RxS::new(2, 8, &[8, 8, 8]).build(rec.clone(), TableMgr::none());
                let mut last = DecapOut::Padding { consumed: 0 };
                let first_at = seq.len() - 3;
                let mut first_accepted = false;
                for (k, p) in seq.iter().enumerate() {
                    if k == first_at {
                        // CRC calls made for earlier packets do not concern the train under test
                        let _ = rec.take();
                    }
                    last = do_decap(&mut rx, p);
                    if k == first_at {
                        first_accepted = matches!(last, DecapOut::Fragmented { .. });
                        match between {
                            "reset" => rx.reset_last_label(),
                            "broadcast-packet" | "other-label-packet" => {
                                let l2 = if between == "broadcast-packet" { Lbl::Bcast } else { L6B };
                                if let DecapOut::Completed { buf, .. } = do_decap(&mut rx, &Desc::complete(l2, 0x86DD, &[0x7C]).print()) {
                                    let _ = rx.provision_storage(vec![0u8; buf.len()].into_boxed_slice());
                                }
                                let _ = rec.take();
                            }
                            _ => {}
                        }
                    }
                    if let DecapOut::Completed { buf, .. } = &last {
                        let _ = rx.provision_storage(vec![0u8; buf.len()].into_boxed_slice());
                    }
                }
                acc.states += 1;
                acc.transitions += seq.len() as u64;
                acc.calls += seq.len() as u64;
                acc.compared += 1;
                let want_label: Vec<u8> = if first_label == Lbl::ReUse { vec![] } else { first_label.bytes() };
                let conformant = total_counts == want_label.len() && crc_label == want_label;
                acc.outcome(&format!("C:{}:{}", if conformant { "conformant" } else { "crafted" }, last.class()));
                let wit = || json!({"label_memory_between_first_and_rest": between, "abandoned_train_before": abandoned, "first_fragment_label": first_label.short(), "receiver_label_memory": prime.map(|l| l.short()), "total_length": total, "trailer_is_crc_over_label": hex(&crc_label), "packets": seq.iter().map(|p| hex(p)).collect::<Vec<_>>(), "outcome": last.brief()});
                // a receiver may refuse the first fragment of a crafted train outright; what it then recomputes for
                // the following fragments concerns whatever older train is open, not this one
                let calls = if first_accepted || conformant { rec.take() } else { vec![] };
                for c in calls {
                    if c.label != want_label || c.total != total || c.pt != 0x0800 || c.pdu != x {
                        rep.violation(&format!("C12|receiver|crc-arguments|{}", if first_label == Lbl::ReUse { "reuse" } else { "explicit" }), total_counts as u64, || (format!("decap recomputed the CRC over (total_len {}, pt {:#06x}, label {}, {} PDU bytes); the first fragment {} so the label argument must be {} and the other arguments the received total length {}, protocol type 0x0800 and the 6 reassembled bytes", c.total, c.pt, hex(&c.label), c.pdu.len(), if first_label == Lbl::ReUse { "used label re-use" } else { "carried its label" }, if want_label.is_empty() { "empty".to_string() } else { hex(&want_label) }, total), wit()));
                    }
                }
                if conformant {
                    if !matches!(&last, DecapOut::Completed { meta, .. } if meta.label == resolved) {
                        rep.violation(&format!("C12|receiver|conformant-train-not-delivered|{}", last.class()), 0, || (format!("a conformant hand-built train is not delivered with label {}: {}", resolved.short(), last.brief()), wit()));
                    }
                } else if matches!(last, DecapOut::Completed { .. }) {
                    rep.violation("C12|receiver|crafted-train-delivered", total_counts as u64, || (format!("a train whose total length / trailer do not correspond to the label as written is delivered: {}", last.brief()), wit()));
                }
            }
           }
          }
        }
    }
    rep.merge(acc);
    rep.part(json!({"part":"C receiver-side hand-built trains","first_fragment_labels":5,"total_length_variants":3,"trailer_variants":3,"abandoned_trains_before":5}));
}
