#![allow(dead_code, unused_imports)]
//! gsemc — bounded exhaustive exploration of dvb_gse_rust against the properties C01..C20.
mod common;
mod explore;
mod live;
mod props;
mod refm;
mod replay;
mod report;
mod rx;
mod rxalpha;
mod rxmodel;
mod sender;
mod tx;

use report::Tier;

fn usage() -> ! {
    eprintln!("usage: gsemc check <C01..C20> [--tier quick|thorough]\n       gsemc replay <file>");
    std::process::exit(2);
}

fn main() {
    common::install_panic_hook();
    let args: Vec<String> = std::env::args().collect();
    if args.len() < 3 {
        usage();
    }
    match args[1].as_str() {
        "check" => {
            let id = args[2].to_uppercase();
            let mut tier = match std::env::var("VERIF_TIER").as_deref() {
                Ok("thorough") => Tier::Thorough,
                _ => Tier::Quick,
            };
            let mut i = 3;
            while i < args.len() {
                if args[i] == "--tier" && i + 1 < args.len() {
                    tier = if args[i + 1] == "thorough" { Tier::Thorough } else { Tier::Quick };
                    i += 1;
                }
                i += 1;
            }
            // the explorer's own panics (not the subject's, which are caught) are machinery errors
            let code = match std::panic::catch_unwind(|| dispatch(&id, tier)) {
                Ok(c) => c,
                Err(_) => {
                    eprintln!("MACHINERY-ERROR: the explorer itself panicked");
                    2
                }
            };
            std::process::exit(code);
        }
        "replay" => {
            std::process::exit(replay::replay_file(&args[2]));
        }
        _ => usage(),
    }
}

fn dispatch(id: &str, tier: Tier) -> i32 {
    match id {
        "C01" => props::c01::run(tier),
        "C02" => props::c02::run(tier),
        "C03" => props::c03::run(tier),
        "C04" => props::c04::run(tier),
        "C05" => props::c05::run(tier),
        "C06" => props::c06::run(tier),
        "C07" => props::c07::run(tier),
        "C08" => props::c08::run(tier),
        "C09" => props::c09::run(tier),
        "C10" => props::c10::run(tier),
        "C11" => props::c11::run(tier),
        "C12" => props::c12::run(tier),
        "C13" => props::c13::run(tier),
        "C14" => props::c14::run(tier),
        "C15" => props::c15::run(tier),
        "C16" => props::c16::run(tier),
        "C17" => props::c17::run(tier),
        "C18" => props::c18::run(tier),
        "C19" => props::c19::run(tier),
        "C20" => props::c20::run(tier),
        _ => {
            eprintln!("MACHINERY-ERROR: no check registered for {}", id);
            2
        }
    }
}
