//! C05 — decap (and the peek function) are total on arbitrary bytes, with bounded and
//! progressing consumption, in every reachable receiver state.

use crate::common::*;
use crate::explore::*;
use crate::report::{Acc, Report, Tier};
use crate::rx::*;
use crate::rxalpha::*;
use crate::rxmodel;
use crate::tx::*;
use dvb_gse_rust::crc::DefaultCrc;
use dvb_gse_rust::gse_encap::Encapsulator;
use rayon::prelude::*;
use serde_json::json;
use std::collections::HashSet;

/// reachable receiver states: <= `depth` ops over the alphabet from several storage configurations
pub fn receiver_states(rep: &Report, depth: usize, note: bool) -> Vec<RxS> {
    let quiet = Report::new("C05-states", rep.tier);
    let mut seen: HashSet<RxS> = HashSet::new();
    let mut out = vec![];
    for slots in [1usize, 2] {
        for size in [0usize, 1, 4, 64] {
            for nbuf in [0usize, 1, slots + 2] {
                // nbuf buffers already in the free list (slots+2 = full), two more owned by the caller
                let pre: Vec<usize> = (0..nbuf).map(|i| size + i).collect();
                let buffers: Vec<usize> = vec![size + nbuf, size + nbuf + 1];
                let mut sys = rxmodel::Sys::new(slots, size, buffers, false);
                sys.pre_provisioned = pre;
                let ex = explore(&sys, &Limits { max_states: 200_000, max_depth: depth }, &quiet, "r5");
                for s in ex.states {
                    if seen.insert(s.rx.clone()) {
                        out.push(s.rx);
                    }
                }
            }
        }
    }
    if note {
        rep.part(json!({"part":"receiver states","count":out.len(),"how":format!("all states reachable by <= {} ops (provision/new_pdu/reset/decap over the {}-packet alphabet) from memories of 1 and 2 slots, storage size 0/1/4/64, free list holding 0 / 1 / slots+2 (full) buffers and the caller owning two more", depth, alphabet(1).len())}));
    }
    out
}

fn tail_fill(kind: usize, buf: &mut [u8]) {
    let n = buf.len();
    match kind {
        0 => {}
        1 => buf[2..].iter_mut().for_each(|x| *x = 0xFF),
        2 => (2..n).for_each(|i| buf[i] = i as u8),
        3..=12 => {
            let ids = [0x0000u16, 0x0081, 0x0100, 0x0301, 0x05FF];
            let id = ids[(kind - 3) % 5];
            let shift = (kind - 3) / 5;
            for i in 2..n {
                buf[i] = if (i + shift) % 2 == 0 { (id >> 8) as u8 } else { id as u8 };
            }
        }
        13 | 14 => {
            // protocol type 0x0800 followed by a zero label then data
            let o = if kind == 13 { 2 } else { 5 };
            if n > o + 1 {
                buf[o] = 0x08;
            }
            for i in (o + 8).min(n)..n {
                buf[i] = 0x11;
            }
        }
        15 | 16 => {
            let t = if kind == 15 { 0xFF } else { 0x00 };
            for i in 2..n {
                buf[i] = 0x22;
            }
            if n > 4 {
                buf[3] = t;
                buf[4] = t;
            }
            if n > 6 {
                buf[5] = 0x08;
                buf[6] = 0x00;
            }
        }
        17 | 18 => {
            // "01 00 06 00": an optional extension without data followed by the smallest protocol type, aligned on the
            // type field of a complete packet (offset 2) resp. of a first fragment (offset 5) without label bytes
            let pat = [0x01u8, 0x00, 0x06, 0x00];
            for i in 2..n {
                buf[i] = pat[(i + kind - 15) % 4];
            }
        }
        _ => {}
    }
}
const N_FILL: usize = 19;

struct Ck<'a> {
    rep: &'a Report,
    mgr: TableMgr,
}

impl<'a> Ck<'a> {
    fn one(&self, acc: &mut Acc, s: &RxS, si: usize, input: &[u8], part: &'static str) {
        let mut d = s.build(DefaultCrc {}, self.mgr.clone());
        let peek = catch(|| d.get_label_or_frag_id(input).is_ok());
        let out = do_decap(&mut d, input);
        acc.states += 1;
        acc.transitions += 2;
        acc.calls += 2;
        acc.compared += 1;
        let len = input.len();
        let wit = || json!({"receiver_state": format!("{:?}", s), "state_index": si, "input": hexs(input), "input_len": len, "part": part, "decap": out.brief()});
        if let Err(p) = &peek {
            self.rep.violation(&format!("C05|peek-panic|{}", p.coarse()), len as u64, || (format!("get_label_or_frag_id({}) panics at {}", hexs(input), p.0), wit()));
        }
        match &out {
            DecapOut::Panic(p) => {
                let pk = Panicked(p.clone());
                acc.sout("PANIC", 0);
                self.rep.violation(&format!("C05|decap-panic|{}|{}", pk.coarse(), hdr_class(input)), len as u64, || (format!("decap({}) panics at {} in receiver state #{}", hexs(input), p, si), wit()));
            }
            o => {
                let n = o.consumed().unwrap();
                acc.sout(match o { DecapOut::Completed { .. } => "Completed", DecapOut::Fragmented { .. } => "Fragmented", DecapOut::Padding { .. } => "Padding", _ => "Err" }, 0);
                if let DecapOut::Err { kind, .. } = o {
                    acc.outcome(&format!("Err({})", kind));
                }
                if n > len {
                    self.rep.violation(&format!("C05|consumed>len|{}", o.class()), len as u64, || (format!("decap({}) reports {} consumed bytes for a {}-byte buffer ({})", hexs(input), n, len, o.brief()), wit()));
                }
                if len > 0 && n < 2.min(len) {
                    self.rep.violation(&format!("C05|no-progress|{}", o.class()), len as u64, || (format!("decap({}) consumed {} of {} bytes ({}): a frame walker would not progress", hexs(input), n, len, o.brief()), wit()));
                }
            }
        }
    }
}

fn hdr_class(input: &[u8]) -> String {
    if input.len() < 2 {
        return "short".into();
    }
    match crate::refm::header_fields(u16::from_be_bytes([input[0], input[1]])) {
        None => "padding".into(),
        Some((k, _, _)) => k.name().to_string(),
    }
}

/// corpus of valid packets from the real encapsulator (all kinds, labels, extension chains)
pub fn corpus() -> Vec<Vec<u8>> {
    let mut v = vec![];
    let pd = pdu(23, 0);
    for l in [L6A, L3A, Lbl::Bcast] {
        for b in [13usize, 18, 24, 64] {
            let mut enc = Encapsulator::new(DefaultCrc {});
            let mut buf = vec![0u8; b];
            match do_encap(&mut enc, &pd, 2, 0x0800, l, &mut buf) {
                EncOut::Completed(n) => v.push(buf[..(n).min(buf.len())].to_vec()),
                EncOut::Fragmented(n, mut ctx) => {
                    v.push(buf[..(n).min(buf.len())].to_vec());
                    for b2 in [9usize, 64] {
                        let mut c = ctx;
                        loop {
                            let mut bb = vec![0u8; b2];
                            match do_encap_frag(&enc, &pd, c, &mut bb) {
                                EncOut::Fragmented(n2, c2) => {
                                    v.push(bb[..(n2).min(bb.len())].to_vec());
                                    c = c2;
                                }
                                EncOut::Completed(n2) => {
                                    v.push(bb[..(n2).min(bb.len())].to_vec());
                                    break;
                                }
                                _ => break,
                            }
                        }
                    }
                    ctx.pos = 0;
                }
                _ => {}
            }
        }
        for chain in [vec![(0x0101u16, vec![])], vec![(0x0303, vec![1, 2, 3, 4]), (0x0011, vec![9])], vec![(0x0202, vec![5, 6]), (0x0042, vec![7, 8, 9])], vec![(0x05FF, vec![1, 2, 3, 4, 5, 6, 7, 8]), (0x0404, vec![1, 2, 3, 4, 5, 6]), (0x0010, vec![])], vec![(0x0202, vec![5, 6]), (0x0018, vec![1, 2, 3, 4, 5, 6, 7, 8])], vec![(0x0101, vec![]), (0x0011, vec![9]), (0x0303, vec![1, 2, 3, 4])], vec![(0x0011, vec![9]), (0x0018, vec![1, 2, 3, 4, 5, 6, 7, 8]), (0x0042, vec![7, 8, 9])], vec![(0x0100, vec![])], vec![(0x0500, vec![1, 2, 3, 4, 5, 6, 7, 8])]] {
            let pt0 = crate::props::c06::pt_for_chain(&chain);
            // chains that are followed by a real protocol type: also the boundary values of that field
            let pts: Vec<u16> = if pt0 >= 0x0600 { vec![pt0, 0x0600] } else { vec![pt0] };
            for pt in pts {
                for b in [22usize, 30, 64] {
                    let mut enc = Encapsulator::new(DefaultCrc {});
                    let mut buf = vec![0u8; b];
                    if let Some(n) = do_encap_ext(&mut enc, &pd, 3, pt, l, &mut buf, &chain).len() {
                        v.push(buf[..n.min(b)].to_vec());
                    }
                }
            }
        }
    }
    // re-use label packets
    let mut enc = Encapsulator::new(DefaultCrc {});
    let mut buf = vec![0u8; 64];
    let _ = do_encap(&mut enc, &pd, 2, 0x0800, L6A, &mut buf);
    if let Some(n) = do_encap(&mut enc, &pd, 2, 0x0800, L6A, &mut buf).len() {
        v.push(buf[..(n).min(buf.len())].to_vec());
    }
    let mut b2 = vec![0u8; 12];
    if let Some(n) = do_encap(&mut enc, &pd, 2, 0x0800, L6A, &mut b2).len() {
        v.push(b2[..(n).min(b2.len())].to_vec());
    }
    v.sort();
    v.dedup();
    v
}

pub fn run(tier: Tier) -> i32 {
    let rep = Report::new("C05", tier);
    rep.set_rule("complete product (receiver state) x (input buffer): states = all receiver snapshots reachable within 3 ops from 24 storage configurations (deduplicated); inputs = (a) all byte strings of length 0..=3, (b) fixed headers x buffer lengths {2..=24, pkt-1, pkt, pkt+1, pkt+9} x 19 adversarial tail fillers (quick: GSE lengths 0..=40 and 4080..=4095 of all 16 kind/label-type combinations; thorough: all 65536 headers in 12 states), (c) every truncation and every single-byte replacement by 00/FF/05 of a corpus of valid packets from the real encapsulator (all kinds, labels, extension chains incl. non-final mandatory extensions with data in non-first position), (d) every corpus packet with its GSE length field re-announced to every value 0..=actual (buffer whole and truncated); distinct = outcome classes");
    rep.assume("the statement's 'random and mutated-valid packets up to 8 KiB' is replaced by the structured enumerations (b) and (c): sampling is not a deciding step");
    rep.assume("receiver states beyond 3 ops from the listed configurations are not covered by this check (C16 and C08 explore the closure with their own oracles)");
    let states = receiver_states(&rep, 3, true);
    for s in states.iter().take(50) {
        s.check_fidelity();
    }
    let ck = Ck { rep: &rep, mgr: mgr_std() };
    // representative subset: spread over the list
    let nrep = if tier.thorough() { 24 } else { 4 };
    let step = (states.len() / nrep).max(1);
    let reps: Vec<usize> = (0..states.len()).step_by(step).collect();

    // the directed and corpus-based families run first: they are the cheapest and the only ones that reach deep states;
    // the big sweep (a) comes last so that a wall cap under load cuts the broad part, not the deep ones
    // (c) corpus truncations and single-byte replacements
    let corp = corpus();
    let c_jobs: Vec<(usize, usize)> = (0..states.len()).flat_map(|si| (0..corp.len()).map(move |ci| (si, ci))).collect();
    c_jobs.par_chunks(16).for_each(|chunk| {
        if rep.over_time() {
            rep.cap("(c): wall cap");
            return;
        }
        let mut acc = Acc::default();
        for &(si, ci) in chunk {
            let s = &states[si];
            let p = &corp[ci];
            for cut in 0..=p.len() {
                ck.one(&mut acc, s, si, &p[..cut], "c");
            }
            for i in 0..p.len() {
                for v in [0x00u8, 0xFF, 0x05] {
                    if p[i] != v {
                        let mut m = p.clone();
                        m[i] = v;
                        ck.one(&mut acc, s, si, &m, "c");
                        // mutated and followed by more bytes
                        m.extend_from_slice(&[0x00, 0x05, 0xFF]);
                        ck.one(&mut acc, s, si, &m, "c");
                    }
                }
            }
        }
        rep.merge(acc);
    });
    rep.part(json!({"part":"(c) corpus truncations and byte replacements","corpus_packets":corp.len(),"in_states":states.len()}));

    // (d) every re-announced length of every corpus packet: the GSE length field is set to every value
    // 0..=actual (the packet "ends" inside any of its fields), with the buffer left whole and truncated
    let d_states: Vec<usize> = if tier.thorough() { (0..states.len()).collect() } else { (0..states.len()).step_by(3).collect() };
    let d_jobs: Vec<(usize, usize)> = d_states.iter().flat_map(|&si| (0..corp.len()).map(move |ci| (si, ci))).collect();
    d_jobs.par_chunks(16).for_each(|chunk| {
        if rep.over_time() {
            rep.cap("(d): wall cap");
            return;
        }
        let mut acc = Acc::default();
        for &(si, ci) in chunk {
            let s = &states[si];
            let p = &corp[ci];
            let gl = p.len() - 2;
            for g in 0..=gl {
                let mut m = p.clone();
                m[0] = (m[0] & 0xF0) | ((g >> 8) as u8 & 0x0F);
                m[1] = g as u8;
                ck.one(&mut acc, s, si, &m, "d");
                ck.one(&mut acc, s, si, &m[..g + 2], "d");
            }
        }
        rep.merge(acc);
    });
    rep.part(json!({"part":"(d) every re-announced GSE length of every corpus packet","corpus_packets":corp.len(),"in_states":d_states.len()}));
    directed_large_storage(&rep, &ck);
    // (b) headers x lengths x fillers
    let gls: Vec<usize> = (0..=40).chain(4080..=4095).collect();
    let mut headers: Vec<u16> = vec![];
    for top in 0..16u16 {
        for &g in &gls {
            headers.push((top << 12) | g as u16);
        }
    }
    let b_states: Vec<usize> = if tier.thorough() { (0..states.len()).collect() } else { (0..states.len()).step_by(7).collect() };
    let b_jobs: Vec<(usize, u16)> = b_states.iter().flat_map(|&si| headers.iter().map(move |&h| (si, h))).collect();
    let run_b = |jobs: &[(usize, u16)]| {
        jobs.par_chunks(64).for_each(|chunk| {
            if rep.over_time() {
                rep.cap("(b): wall cap");
                return;
            }
            let mut acc = Acc::default();
            for &(si, h) in chunk {
                let s = &states[si];
                let pkt = (h & 0x0FFF) as usize + 2;
                let mut lens: Vec<usize> = (2..=24).collect();
                lens.extend([pkt.saturating_sub(1).max(2), pkt, pkt + 1, pkt + 9]);
                lens.sort();
                lens.dedup();
                for len in lens {
                    for f in 0..N_FILL {
                        let mut buf = vec![0u8; len];
                        buf[0] = (h >> 8) as u8;
                        buf[1] = h as u8;
                        tail_fill(f, &mut buf);
                        ck.one(&mut acc, s, si, &buf, "b");
                    }
                }
            }
            rep.merge(acc);
        });
    };
    run_b(&b_jobs);
    rep.part(json!({"part":"(b) headers x lengths x fillers","headers":headers.len(),"fillers":N_FILL,"in_states":b_states.len()}));
    if tier.thorough() {
        let all: Vec<(usize, u16)> = reps.iter().take(12).flat_map(|&si| (0..=0xFFFFu32).map(move |h| (si, h as u16))).collect();
        run_b(&all);
        rep.part(json!({"part":"(b') all 65536 headers","in_states":12}));
    }

    // (a) all byte strings of length 0..=3
    let a_states: Vec<usize> = if tier.thorough() { (0..states.len()).step_by((states.len() / 60).max(1)).collect() } else { reps.clone() };
    let jobs: Vec<(usize, u32)> = a_states.iter().flat_map(|&si| (0..=255u32).map(move |b0| (si, b0))).collect();
    jobs.par_iter().for_each(|&(si, b0)| {
        if rep.over_time() {
            rep.cap("(a): wall cap");
            return;
        }
        let mut acc = Acc::default();
        let s = &states[si];
        let b0 = b0 as u8;
        if b0 == 0 {
            ck.one(&mut acc, s, si, &[], "a");
        }
        ck.one(&mut acc, s, si, &[b0], "a");
        for b1 in 0..=255u8 {
            ck.one(&mut acc, s, si, &[b0, b1], "a");
            for b2 in 0..=255u8 {
                ck.one(&mut acc, s, si, &[b0, b1, b2], "a");
            }
        }
        rep.merge(acc);
    });
    rep.part(json!({"part":"(a) all byte strings of length 0..=3","strings":16_843_009u64,"in_states":a_states.len()}));

    for (k, &si) in reps.iter().enumerate().take(3) {
        rep.sample(k as u64, || json!({"receiver_state": format!("{:?}", states[si]), "inputs": "all byte strings of length 0..=3"}));
    }
    rep.finish(true)
}

/// A state BFS cannot reach cheaply: a 70000-byte storage filled by a first fragment and 15
/// intermediates of 4094 bytes, so that the 16-bit reassembly bookkeeping is at its limit when the
/// next continuation packets arrive.
fn directed_large_storage(rep: &Report, ck: &Ck) {
    use crate::refm::Desc;
    let mut acc = Acc::default();
    let mut d = RxS::new(1, 70000, &[70000]).build(DefaultCrc {}, ck.mgr.clone());
    let first = Desc::first(L3A, 0x0800, 0, 0xFFFF, &vec![0x41u8; 4085]).print();
    let inter = Desc::inter(0, &vec![0x42u8; 4094]).print();
    let mut hist = vec![];
    hist.push(do_decap(&mut d, &first).class());
    for _ in 0..15 {
        hist.push(do_decap(&mut d, &inter).class());
    }
    let s = RxS::of(&d);
    let filled = s.mem.ctx_in_class(0).map(|c| c.0.pdu_len).unwrap_or(0);
    let mut inputs: Vec<Vec<u8>> = vec![];
    for n in [1usize, 2, 39, 40, 41, 100, 1000, 4094] {
        inputs.push(Desc::inter(0, &vec![0x43u8; n]).print());
        inputs.push(Desc::end(0, &vec![0x44u8; n], 0x0102_0304).print());
    }
    inputs.push(Desc::end(0, &[], 0).print());
    for i in &inputs {
        ck.one(&mut acc, &s, 1_000_000, i, "directed");
        // and chained: the same packet twice
        let mut d2 = s.build(DefaultCrc {}, ck.mgr.clone());
        let _ = do_decap(&mut d2, i);
        let s2 = RxS::of(&d2);
        for j in &inputs {
            ck.one(&mut acc, &s2, 1_000_001, j, "directed");
        }
    }
    rep.merge(acc);
    rep.part(json!({"part":"directed state: 70000-byte storage at the 16-bit bookkeeping limit","history":hist,"bytes_reassembled_before_the_menu":filled,"inputs":inputs.len()}));
}
