pub mod c06;
pub mod c14;
