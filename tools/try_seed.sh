#!/bin/bash
# tools/try_seed.sh <patch.diff> [checks...]  — applies a seeded change to /repo, runs the quick checks
# (all 20 by default), prints which ones report a violation, and ALWAYS undoes the change.
set -u
PATCH="$1"; shift
CHECKS="${*:-C01 C02 C03 C04 C05 C06 C07 C08 C09 C10 C11 C12 C13 C14 C15 C16 C17 C18 C19 C20}"
TIER="${TIER:-quick}"
cd /repo || exit 2
if [ -n "$(git status --porcelain --untracked-files=no)" ]; then echo "/repo is not clean"; exit 2; fi
git apply --check "$PATCH" || { echo "patch does not apply"; exit 2; }
git apply "$PATCH"
trap 'git -C /repo checkout -- . ' EXIT
cd /verif
CAUGHT=""
for c in $CHECKS; do
  out=$(timeout 300 ./check $c $TIER 2>&1); rc=$?
  sigs=$(echo "$out" | grep -c "^VIOLATION")
  if [ $rc -eq 1 ]; then CAUGHT="$CAUGHT $c"; echo "== $c: exit 1, $sigs violation line(s)"; echo "$out" | grep "signature:" | head -4; 
  elif [ $rc -ne 0 ]; then echo "== $c: exit $rc (machinery / timeout)"; echo "$out" | tail -3; fi
done
echo "CAUGHT BY:$CAUGHT"
