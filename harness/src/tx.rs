//! Real sender calls under catch_unwind, with observable results in harness types.

use crate::common::*;
use dvb_gse_rust::crc::CrcCalculator;
use dvb_gse_rust::gse_encap::{
    encap_frag_preview, encap_preview, ContextFrag, EncapError, EncapMetadata, EncapPreview, EncapStatus, Encapsulator,
};
use dvb_gse_rust::header_extension::Extension;

#[derive(Clone, Copy, PartialEq, Eq, Hash, Debug)]
pub struct Ctx {
    pub id: u8,
    pub crc: u32,
    pub pos: u16,
}

impl Ctx {
    pub fn to_real(self) -> ContextFrag {
        ContextFrag::new(self.id, self.crc, self.pos)
    }
    pub fn of(c: &ContextFrag) -> Ctx {
        Ctx { id: c.frag_id(), crc: c.crc(), pos: c.len_pdu_frag() }
    }
}

#[derive(Clone, PartialEq, Eq, Hash, Debug)]
pub enum EncOut {
    Completed(usize),
    Fragmented(usize, Ctx),
    Err(String),
    Panic(String),
}

impl EncOut {
    pub fn class(&self) -> String {
        match self {
            EncOut::Completed(_) => "Completed".into(),
            EncOut::Fragmented(..) => "Fragmented".into(),
            EncOut::Err(e) => format!("Err({})", e),
            EncOut::Panic(_) => "PANIC".into(),
        }
    }
    pub fn len(&self) -> Option<usize> {
        match self {
            EncOut::Completed(n) | EncOut::Fragmented(n, _) => Some(*n),
            _ => None,
        }
    }
    pub fn is_ok(&self) -> bool {
        self.len().is_some()
    }
}

pub fn obs_enc(r: Result<Result<EncapStatus, EncapError>, Panicked>) -> EncOut {
    match r {
        Err(p) => EncOut::Panic(p.0),
        Ok(Ok(EncapStatus::CompletedPkt(n))) => EncOut::Completed(n as usize),
        Ok(Ok(EncapStatus::FragmentedPkt(n, c))) => EncOut::Fragmented(n as usize, Ctx::of(&c)),
        Ok(Err(e)) => EncOut::Err(format!("{:?}", e)),
    }
}

pub fn do_encap<C: CrcCalculator>(enc: &mut Encapsulator<C>, pdu: &[u8], frag_id: u8, pt: u16, l: Lbl, buf: &mut [u8]) -> EncOut {
    obs_enc(catch(|| enc.encap(pdu, frag_id, EncapMetadata::new(pt, l.to_label()), buf)))
}

pub fn do_encap_frag<C: CrcCalculator>(enc: &Encapsulator<C>, pdu: &[u8], ctx: Ctx, buf: &mut [u8]) -> EncOut {
    let c = ctx.to_real();
    obs_enc(catch(|| enc.encap_frag(pdu, &c, buf)))
}

pub fn mk_exts(x: &[(u16, Vec<u8>)]) -> Vec<Extension> {
    x.iter().map(|(id, d)| Extension::new(*id, d).expect("harness extension alphabet must be constructible")).collect()
}

pub fn do_encap_ext<C: CrcCalculator>(enc: &mut Encapsulator<C>, pdu: &[u8], frag_id: u8, pt: u16, l: Lbl, buf: &mut [u8], exts: &[(u16, Vec<u8>)]) -> EncOut {
    let e = mk_exts(exts);
    obs_enc(catch(|| enc.encap_ext(pdu, frag_id, EncapMetadata::new(pt, l.to_label()), buf, e)))
}

#[derive(Clone, PartialEq, Eq, Hash, Debug)]
pub enum PrevOut {
    /// kind name (Debug of the crate's PktType), pdu_len field, packet length
    Ok(String, usize, usize),
    Err(String),
    Panic(String),
}

pub fn obs_prev(r: Result<Result<EncapPreview, EncapError>, Panicked>) -> PrevOut {
    match r {
        Err(p) => PrevOut::Panic(p.0),
        Ok(Ok(p)) => PrevOut::Ok(format!("{:?}", p.pkt_type()), p.pdu_len(), p.pkt_len() as usize),
        Ok(Err(e)) => PrevOut::Err(format!("{:?}", e)),
    }
}

pub fn do_preview(pdu: &[u8], pt: u16, l: Lbl, buf: &[u8]) -> PrevOut {
    obs_prev(catch(|| encap_preview(pdu, EncapMetadata::new(pt, l.to_label()), buf)))
}

pub fn do_frag_preview(pdu: &[u8], ctx: Ctx, buf: &[u8]) -> PrevOut {
    let c = ctx.to_real();
    obs_prev(catch(|| encap_frag_preview(pdu, &c, buf)))
}
