//! C04 — label re-use never attributes a PDU to a label the sender did not intend.
//! A: real sender x real receiver in lock-step, closure. B: receiver alone with interleaved
//!    rejected / malformed packets, closure.

use crate::common::*;
use crate::explore::*;
use crate::refm::{self, Desc, Kind};
use crate::report::{Acc, Report, Tier};
use crate::rx::*;
use crate::tx::*;
use dvb_gse_rust::crc::DefaultCrc;
use dvb_gse_rust::gse_encap::Encapsulator;
use serde_json::{json, Value};
use std::hash::{Hash, Hasher};

const PDU_C: [u8; 3] = [0x51, 0x52, 0x53];
const PDU_F: [u8; 8] = [0x61, 0x62, 0x63, 0x64, 0x65, 0x66, 0x67, 0x68];

#[derive(Clone, Debug, PartialEq, Eq, Hash)]
pub struct Open {
    pub ctx: Ctx,
    /// label the sender intended for this PDU (None: explicit re-use with nothing to refer to)
    pub intended: Option<Lbl>,
    pub must_deliver: bool,
}

#[derive(Clone, Debug)]
pub struct ASt {
    pub enc: Encapsulator<DefaultCrc>,
    pub key: String,
    pub rx: RxS,
    /// what the wire carried in the nearest preceding start/complete packet since the last reset
    pub wire_last: Option<Lbl>,
    pub open: [Option<Open>; 2],
}
impl PartialEq for ASt {
    fn eq(&self, o: &ASt) -> bool {
        self.key == o.key && self.rx == o.rx && self.wire_last == o.wire_last && self.open == o.open
    }
}
impl Eq for ASt {}
impl Hash for ASt {
    fn hash<H: Hasher>(&self, h: &mut H) {
        self.key.hash(h);
        self.rx.hash(h);
        self.wire_last.hash(h);
        self.open.hash(h);
    }
}

#[derive(Clone, Copy, Debug, PartialEq, Eq)]
pub enum How {
    Complete,
    ExtComplete,
    FragOn(u8),
    /// first fragment into a 10-byte buffer: only possible when the label takes no room on the wire (re-use substitution,
    /// broadcast); leaves 5 of the 8 PDU bytes for later (fewer than a 6-byte label is long)
    FragTight(u8),
    ExtFragOn(u8),
    FailSmall,
    FailLong,
    FailPtype,
    ExtFailSmall,
    ExtFailLong,
    ExtFailHuge,
}

#[derive(Clone, Debug, PartialEq, Eq)]
pub enum AOp {
    Send(Lbl, How),
    SendZero,
    Continue(u8),
    Reset,
    Disable,
    Enable,
    EnableMax(u8),
    /// receiver side only: an interleaved packet that is rejected and is neither a start nor a complete packet
    /// (0: end fragment of an unknown id, 1: intermediate fragment of an unknown id, 2: end fragment with 3 bytes of
    /// GSE length, i.e. malformed). It must not disturb what the sender's following re-use labels refer to.
    RxNoise(u8),
}

pub struct ASys {
    pub labels: Vec<Lbl>,
    pub hows: Vec<How>,
    pub maxes: Vec<u8>,
    pub long_pdu: Vec<u8>,
}

fn reprovision(rx: &mut RxS, out: &DecapOut) {
    match out {
        DecapOut::Completed { buf, .. } => rx.mem.free.push(vec![0u8; buf.len()]),
        DecapOut::Err { handed_back: Some(b), .. } => rx.mem.free.push(vec![0u8; b.len()]),
        _ => {}
    }
}

impl System for ASys {
    type State = ASt;
    type Op = AOp;
    fn init(&self) -> Vec<ASt> {
        let enc = Encapsulator::new(DefaultCrc {});
        vec![ASt { key: format!("{:?}", enc), enc, rx: RxS::new(2, 16, &[16, 16, 16]), wire_last: None, open: [None, None] }]
    }
    fn ops(&self, s: &ASt) -> Vec<AOp> {
        let mut v = vec![];
        for &l in &self.labels {
            for &h in &self.hows {
                // the tight first fragment is only interesting (and only possible with payload) when the 6-byte label is
                // replaced by re-use; trains without label bytes from two different ops would also be byte-identical
                if matches!(h, How::FragTight(_)) && l != L6A {
                    continue;
                }
                v.push(AOp::Send(l, h));
            }
        }
        v.push(AOp::SendZero);
        for f in 0..2u8 {
            if s.open[f as usize].is_some() {
                v.push(AOp::Continue(f));
            }
        }
        v.push(AOp::Reset);
        v.push(AOp::Disable);
        v.push(AOp::Enable);
        for &m in &self.maxes {
            v.push(AOp::EnableMax(m));
        }
        for k in 0..2u8 {
            v.push(AOp::RxNoise(k));
        }
        v
    }
    fn step(&self, s: &ASt, op: &AOp, acc: &mut Acc) -> StepOut<ASt> {
        let mut n = s.clone();
        let mut viols: Vec<(String, String)> = vec![];
        let ext = vec![(0x0101u16, vec![])];
        acc.calls += 1;
        match op {
            AOp::Send(l, how) => {
                let l = *l;
                let (out, buf, pdu, fid): (EncOut, Vec<u8>, &[u8], u8) = match how {
                    How::Complete => {
                        let mut b = vec![0u8; 64];
                        (do_encap(&mut n.enc, &PDU_C, 0, 0x0800, l, &mut b), b, &PDU_C, 0)
                    }
                    How::ExtComplete => {
                        let mut b = vec![0u8; 64];
                        (do_encap_ext(&mut n.enc, &PDU_C, 0, 0x0800, l, &mut b, &ext), b, &PDU_C, 0)
                    }
                    How::FragOn(f) => {
                        let mut b = vec![0u8; 15];
                        (do_encap(&mut n.enc, &PDU_F, *f, 0x0800, l, &mut b), b, &PDU_F, *f)
                    }
                    How::FragTight(f) => {
                        let mut b = vec![0u8; 10];
                        (do_encap(&mut n.enc, &PDU_F, *f, 0x0800, l, &mut b), b, &PDU_F, *f)
                    }
                    How::ExtFragOn(f) => {
                        let mut b = vec![0u8; 17];
                        (do_encap_ext(&mut n.enc, &PDU_F, *f, 0x0800, l, &mut b, &ext), b, &PDU_F, *f)
                    }
                    How::FailSmall => {
                        let mut b = vec![0u8; 3];
                        (do_encap(&mut n.enc, &PDU_C, 0, 0x0800, l, &mut b), b, &PDU_C, 0)
                    }
                    How::FailLong => {
                        let mut b = vec![0u8; 64];
                        (do_encap(&mut n.enc, &self.long_pdu, 0, 0x0800, l, &mut b), b, &PDU_C, 0)
                    }
                    How::FailPtype => {
                        let mut b = vec![0u8; 64];
                        (do_encap(&mut n.enc, &PDU_C, 0, 0x0100, l, &mut b), b, &PDU_C, 0)
                    }
                    How::ExtFailSmall => {
                        let mut b = vec![0u8; 4];
                        (do_encap_ext(&mut n.enc, &PDU_C, 0, 0x0800, l, &mut b, &ext), b, &PDU_C, 0)
                    }
                    How::ExtFailLong => {
                        let mut b = vec![0u8; 64];
                        (do_encap_ext(&mut n.enc, &self.long_pdu, 0, 0x0800, l, &mut b, &ext), b, &PDU_C, 0)
                    }
                    How::ExtFailHuge => {
                        let mut b = vec![0u8; 4300];
                        let huge = vec![(0x0013u16, vec![0x7E; 4100])];
                        (do_encap_ext(&mut n.enc, &PDU_C, 0, 0x0800, l, &mut b, &huge), b, &PDU_C, 0)
                    }
                };
                acc.outcome(&format!("send:{:?}:{}", how, out.class()).replace("(0)", "").replace("(1)", ""));
                match &out {
                    EncOut::Panic(p) => {
                        viols.push((format!("C04|A|sender-panic|{}", Panicked(p.clone()).coarse()), format!("{:?} panics at {}", op, p)));
                        return StepOut { next: None, viols };
                    }
                    EncOut::Err(_) => {} // nothing on the wire
                    ok => {
                        let len = ok.len().unwrap();
                        let intended: Option<Lbl> = match l {
                            Lbl::ReUse => n.wire_last,
                            other => Some(other),
                        };
                        let must = l != Lbl::ReUse;
                        // wire monitor
                        let lt = (buf[0] >> 4) & 3;
                        if lt != 3 {
                            n.wire_last = if l.is_addr() { Some(l) } else { None };
                        }
                        let (dout, mut rx2) = step_decap(&n.rx, &DefaultCrc {}, &TableMgr::none(), &buf[..len.min(buf.len())]);
                        acc.calls += 1;
                        acc.compared += 1;
                        reprovision(&mut rx2, &dout);
                        n.rx = rx2;
                        let kind = if matches!(ok, EncOut::Completed(_)) { "complete" } else { "first" };
                        let via = if matches!(how, How::ExtComplete | How::ExtFragOn(_)) { "encap_ext" } else { "encap" };
                        match (&dout, ok) {
                            (DecapOut::Completed { buf: got, meta, .. }, EncOut::Completed(_)) => {
                                if Some(meta.label) != intended {
                                    viols.push((format!("C04|A|wrong-label|{}|{}", kind, via), format!("{:?}: PDU delivered with label {} but the sender intended {:?} (first byte {:#04x})", op, meta.label.short(), intended.map(|x| x.short()), buf[0])));
                                }
                                if got[..meta.pdu_len.min(got.len())] != pdu[..] {
                                    viols.push((format!("C04|A|wrong-pdu|{}", kind), format!("{:?}: delivered bytes differ from the PDU sent", op)));
                                }
                            }
                            (DecapOut::Fragmented { meta, .. }, EncOut::Fragmented(_, ctx)) => {
                                if Some(meta.label) != intended {
                                    viols.push((format!("C04|A|wrong-label|{}|{}", kind, via), format!("{:?}: fragment reported with label {} but the sender intended {:?} (first byte {:#04x})", op, meta.label.short(), intended.map(|x| x.short()), buf[0])));
                                }
                                n.open[fid as usize] = Some(Open { ctx: *ctx, intended, must_deliver: must });
                            }
                            (other, _) => {
                                if must {
                                    viols.push((format!("C04|A|not-delivered|{}|{}|{}", kind, via, other.class()), format!("{:?}: packet {} (explicit/broadcast label) is refused by the receiver: {}", op, hex(&buf[..len.min(buf.len())]), other.brief())));
                                }
                                if let EncOut::Fragmented(_, ctx) = ok {
                                    // the sender still holds a context; the receiver holds nothing
                                    n.open[fid as usize] = Some(Open { ctx: *ctx, intended, must_deliver: false });
                                }
                            }
                        }
                        if matches!(ok, EncOut::Completed(_)) && matches!(how, How::FragOn(_) | How::ExtFragOn(_)) {
                            // (does not happen with the chosen sizes)
                        }
                    }
                }
            }
            AOp::SendZero => {
                let mut b = vec![0u8; 64];
                let out = do_encap(&mut n.enc, &PDU_C, 0, 0x0800, L6Z, &mut b);
                acc.outcome(&format!("send-zero:{}", out.class()));
                if let Some(len) = out.len() {
                    let (dout, mut rx2) = step_decap(&n.rx, &DefaultCrc {}, &TableMgr::none(), &b[..(len).min(b.len())]);
                    reprovision(&mut rx2, &dout);
                    n.rx = rx2;
                }
            }
            AOp::Continue(f) => {
                let o = n.open[*f as usize].take().unwrap();
                let enc = n.enc.clone();
                let mut b = vec![0u8; 64];
                let out = do_encap_frag(&enc, &PDU_F, o.ctx, &mut b);
                acc.outcome(&format!("continue:{}", out.class()));
                match &out {
                    EncOut::Completed(len) => {
                        let (dout, mut rx2) = step_decap(&n.rx, &DefaultCrc {}, &TableMgr::none(), &b[..(*len).min(b.len())]);
                        acc.calls += 1;
                        acc.compared += 1;
                        reprovision(&mut rx2, &dout);
                        n.rx = rx2;
                        match &dout {
                            DecapOut::Completed { buf: got, meta, .. } => {
                                if Some(meta.label) != o.intended {
                                    viols.push(("C04|A|wrong-label|end".into(), format!("{:?}: PDU delivered with label {} but the sender intended {:?}", op, meta.label.short(), o.intended.map(|x| x.short()))));
                                }
                                if got[..meta.pdu_len.min(got.len())] != PDU_F[..] {
                                    viols.push(("C04|A|wrong-pdu|end".into(), format!("{:?}: delivered bytes differ from the PDU sent", op)));
                                }
                            }
                            other => {
                                if o.must_deliver {
                                    viols.push((format!("C04|A|not-delivered|end|{}", other.class()), format!("{:?}: end fragment of a PDU sent with an explicit/broadcast label is refused: {}", op, other.brief())));
                                }
                            }
                        }
                    }
                    EncOut::Panic(p) => {
                        viols.push((format!("C04|A|sender-panic|{}", Panicked(p.clone()).coarse()), format!("{:?} panics at {}", op, p)));
                        return StepOut { next: None, viols };
                    }
                    _ => {}
                }
            }
            AOp::Reset => {
                n.enc.reset_last_label();
                n.wire_last = None;
                let mut d = n.rx.build(DefaultCrc {}, TableMgr::none());
                d.reset_last_label();
                n.rx = RxS::of(&d);
            }
            AOp::Disable => n.enc.disable_re_use_label(),
            AOp::Enable => n.enc.enable_re_use_label(),
            AOp::EnableMax(m) => n.enc.enable_re_use_label_with_max_consecutive(*m),
            AOp::RxNoise(k) => {
                let pkt = match k {
                    0 => Desc::end(200, &[0xD1, 0xD2], 0x0102_0304).print(),
                    _ => Desc::inter(201, &[0xD3, 0xD4]).print(),
                };
                let (dout, mut rx2) = step_decap(&n.rx, &DefaultCrc {}, &TableMgr::none(), &pkt);
                acc.calls += 1;
                acc.outcome(&format!("rx-noise:{}:{}", k, dout.class()));
                if matches!(dout, DecapOut::Completed { .. } | DecapOut::Fragmented { .. }) {
                    viols.push((format!("C04|A|noise-accepted|{}", dout.class()), format!("{:?}: a continuation packet of an unknown fragment id is accepted: {}", op, dout.brief())));
                }
                reprovision(&mut rx2, &dout);
                n.rx = rx2;
            }
        }
        // a new first fragment on an id replaces the receiver's context: forget contents the property cannot observe
        crate::rxmodel::normalise(&mut n.rx);
        n.key = format!("{:?}", n.enc);
        StepOut { next: Some(n), viols }
    }
    fn op_json(&self, op: &AOp) -> Value {
        json!(format!("{:?}", op))
    }
}

// ---------------------------------------------------------------------------------------
// B: receiver alone
// ---------------------------------------------------------------------------------------

#[derive(Clone, Debug, PartialEq, Eq, Hash)]
pub struct BSt {
    pub rx: RxS,
    /// label carried by the nearest preceding start/complete packet since the last reset
    /// (None: none, broadcast, or a start/complete packet whose label cannot be known)
    pub near: Option<Lbl>,
    /// label resolved for the open train of each id (0,1,2)
    pub train: [Option<Lbl>; 3],
}

#[derive(Clone, Debug, PartialEq, Eq)]
pub enum BOp {
    Feed(usize),
    Reset,
}

pub struct BSys {
    pub alphabet: Vec<(String, Vec<u8>)>,
    /// number of storage buffers the receiver starts with (1: first fragments on an empty slot are
    /// refused for lack of storage while another train holds the only buffer)
    pub buffers: usize,
}

fn b_alphabet() -> Vec<(String, Vec<u8>)> {
    let mut v: Vec<(String, Vec<u8>)> = vec![];
    let x = [0x71u8, 0x72, 0x73, 0x74];
    for (n, l) in [("6A", L6A), ("6B", L6B), ("3A", L3A), ("bcast", Lbl::Bcast), ("reuse", Lbl::ReUse)] {
        v.push((format!("complete-{}", n), Desc::complete(l, 0x0800, &[0x01, 0x02]).print()));
        let tot = (4 + 2 + l.wire_len()) as u16;
        v.push((format!("first-id0-{}", n), Desc::first(l, 0x0800, 0, tot, &x[..2]).print()));
    }
    v.push(("first-id1-reuse".into(), Desc::first(Lbl::ReUse, 0x0800, 1, 6, &x[..2]).print()));
    v.push(("first-id1-6B".into(), Desc::first(L6B, 0x0800, 1, 12, &x[..2]).print()));
    v.push(("first-id1-3A".into(), Desc::first(L3A, 0x0800, 1, 9, &x[..2]).print()));
    v.push(("end-id0-reuse-ok".into(), Desc::end(0, &x[2..], crate::refm::crc_ref(6, 0x0800, &[], &x)).print()));
    v.push(("first-alias-id2-3A".into(), Desc::first(L3A, 0x0800, 2, 9, &x[..2]).print()));
    v.push(("inter-id0".into(), Desc::inter(0, &x[2..3]).print()));
    v.push(("inter-id1".into(), Desc::inter(1, &x[2..3]).print()));
    v.push(("inter-unknown-id".into(), Desc::inter(9, &x[2..3]).print()));
    v.push(("end-id0-badcrc".into(), Desc::end(0, &x[3..], 0xDEAD_BEEF).print()));
    v.push(("end-unknown-id".into(), Desc::end(9, &x[3..], 0).print()));
    v.push(("complete-zero-label".into(), Desc::complete(L6Z, 0x0800, &[0x03]).print()));
    let mut d = Desc::complete(L6B, 0x0033, &[0x04]);
    d.ext_bytes = vec![];
    v.push(("complete-6B-unknown-mandatory-ext".into(), d.print()));
    v.push(("complete-3A-oversize".into(), Desc::complete(L3A, 0x0800, &[0x05; 20]).print()));
    v.push(("complete-6B-truncated".into(), Desc::complete(L6B, 0x0800, &[0x06; 4]).print()[..7].to_vec()));
    let mut d = Desc::complete(L6B, 0x0800, &[]);
    d.gse_len = Some(3);
    v.push(("complete-6B-bad-gse-len".into(), d.print()));
    v.push(("first-id0-6B-bad-total".into(), Desc::first(L6B, 0x0800, 0, 1, &x[..2]).print()));
    v.push(("first-id1-3A-oversize".into(), Desc::first(L3A, 0x0800, 1, 40, &[0x07; 20]).print()));
    let mut d = Desc::first(L6B, 0x0033, 1, 12, &x[..1]);
    d.ext_bytes = vec![];
    v.push(("first-id1-6B-unknown-mandatory-ext".into(), d.print()));
    v.push(("one-byte".into(), vec![0xC0]));
    v.push(("padding".into(), vec![0, 0, 0]));
    // a complete packet whose label is readable but whose extension chain runs past the packet end (rejected): the
    // nearest preceding start/complete packet is then THIS one
    let mut d = Desc::complete(L6B, 0x0300, &[]);
    d.ext_bytes = vec![0x01, 0x02];
    v.push(("complete-6B-ext-chain-past-end".into(), d.print()));
    let mut d = Desc::first(L3A, 0x0300, 0, 9, &[]);
    d.ext_bytes = vec![0x01, 0x02];
    v.push(("first-id0-3A-ext-chain-past-end".into(), d.print()));
    v
}

impl System for BSys {
    type State = BSt;
    type Op = BOp;
    fn init(&self) -> Vec<BSt> {
        // storage: two buffers only, so that 'storage exhausted' rejections occur (nothing is re-provisioned
        // for open trains; delivered buffers come back)
        vec![BSt { rx: RxS::new(2, 8, &vec![8; self.buffers]), near: None, train: [None, None, None] }]
    }
    fn ops(&self, _s: &BSt) -> Vec<BOp> {
        let mut v: Vec<BOp> = (0..self.alphabet.len()).map(BOp::Feed).collect();
        v.push(BOp::Reset);
        v
    }
    fn step(&self, s: &BSt, op: &BOp, acc: &mut Acc) -> StepOut<BSt> {
        let mut n = s.clone();
        let mut viols = vec![];
        acc.calls += 1;
        match op {
            BOp::Reset => {
                let mut d = n.rx.build(DefaultCrc {}, TableMgr::none());
                d.reset_last_label();
                n.rx = RxS::of(&d);
                n.near = None;
            }
            BOp::Feed(i) => {
                let (name, bytes) = &self.alphabet[*i];
                let (out, mut rx2) = step_decap(&n.rx, &DefaultCrc {}, &TableMgr::none(), bytes);
                acc.compared += 1;
                acc.outcome(&format!("B:{}:{}", name, out.class()));
                if let DecapOut::Panic(p) = &out {
                    viols.push((format!("C04|B|panic|{}", Panicked(p.clone()).coarse()), format!("decap({}) panics at {}", name, p)));
                    return StepOut { next: None, viols };
                }
                reprovision(&mut rx2, &out);
                n.rx = rx2;
                // classify the packet by the independent reading of its header
                let hdr = if bytes.len() >= 2 { refm::header_fields(u16::from_be_bytes([bytes[0], bytes[1]])) } else { None };
                // S bit of a complete fixed header (a buffer shorter than the fixed header is not a packet at all: it neither
                // carries a label nor separates the following packet from the preceding start/complete packet)
                let starts = bytes.len() >= 2 && bytes[0] & 0x80 != 0;
                let parsed = refm::parse(bytes, &|_| None);
                let reported: Option<Lbl> = match &out {
                    DecapOut::Completed { meta, .. } | DecapOut::Fragmented { meta, .. } => Some(meta.label),
                    _ => None,
                };
                if starts {
                    match (&parsed, hdr) {
                        (Ok(p), _) if p.lt == 3 => {
                            // re-use: resolution must give `near`
                            if let Some(r) = reported {
                                if Some(r) != s.near {
                                    let why = if s.near.is_none() { "nothing-to-resolve" } else { "other-label" };
                                    viols.push((format!("C04|B|wrong-resolution|{}", why), format!("feeding {}: re-use label resolved to {} but the nearest preceding start/complete packet of the frame carried {:?}", name, r.short(), s.near.map(|x| x.short()))));
                                }
                            }
                            // near unchanged (the packet carries the same label)
                        }
                        (Ok(p), _) => {
                            n.near = match p.lt {
                                0 => Some(Lbl::Six(p.label.clone().try_into().unwrap())),
                                1 => Some(Lbl::Three(p.label.clone().try_into().unwrap())),
                                _ => None,
                            };
                            if let Some(r) = reported {
                                if r.bytes() != p.label || r.lt() != p.lt {
                                    viols.push(("C04|B|explicit-label-misreported".into(), format!("feeding {}: reported label {} differs from the label on the wire {}", name, r.short(), hex(&p.label))));
                                }
                            }
                        }
                        _ => {
                            // a start/complete packet that does not parse as a whole. If its label field can still be read
                            // (fixed header, type field and label inside the announced packet) it is the label carried by the
                            // nearest preceding start/complete packet; a re-use label keeps what was there; otherwise nothing
                            // may be resolved from before it
                            let lbl_at = match hdr.map(|h| h.0) {
                                Some(Kind::Complete) => Some(4usize),
                                Some(Kind::First) => Some(7usize),
                                _ => None,
                            };
                            let lt = hdr.map(|h| h.1).unwrap_or(0);
                            let pkt_end = hdr.map(|h| h.2 + 2).unwrap_or(0).min(bytes.len());
                            n.near = match (lbl_at, lt) {
                                (Some(o), 0) if o + 6 <= pkt_end => Some(Lbl::Six(bytes[o..o + 6].try_into().unwrap())),
                                (Some(o), 1) if o + 3 <= pkt_end => Some(Lbl::Three(bytes[o..o + 3].try_into().unwrap())),
                                (Some(o), 3) if o <= pkt_end => s.near,
                                _ => None,
                            };
                        }
                    }
                    if let (Ok(p), Some(r)) = (&parsed, reported) {
                        if p.kind == Kind::First {
                            let f = p.frag_id.unwrap() as usize;
                            if f < 3 {
                                // a first fragment on an aliasing id evicts the other id of the slot
                                for g in 0..3 {
                                    if g != f && g % 2 == f % 2 {
                                        n.train[g] = None;
                                    }
                                }
                                n.train[f] = Some(r);
                            }
                        }
                    }
                } else if let Ok(p) = &parsed {
                    // intermediate / end: label of the train
                    if let (Some(f), Some(r)) = (p.frag_id, reported) {
                        if (f as usize) < 3 && n.train[f as usize].is_some() && n.train[f as usize] != Some(r) {
                            viols.push(("C04|B|train-label-changed".into(), format!("feeding {}: fragment reported with label {} but the first fragment of the train was attributed to {:?}", name, r.short(), n.train[f as usize].map(|x| x.short()))));
                        }
                    }
                    if p.kind == Kind::End {
                        if let Some(f) = p.frag_id {
                            if (f as usize) < 3 {
                                n.train[f as usize] = None;
                            }
                        }
                    }
                }
                // keep the ghost train labels only for trains the receiver really holds
                for g in 0..3 {
                    let held = n.rx.mem.ctx_in_class(g as u8).map(|c| c.0.frag_id as usize == g).unwrap_or(false);
                    if !held {
                        n.train[g] = None;
                    }
                }
            }
        }
        crate::rxmodel::normalise(&mut n.rx);
        StepOut { next: Some(n), viols }
    }
    fn op_json(&self, op: &BOp) -> Value {
        match op {
            BOp::Feed(i) => json!({"feed": self.alphabet[*i].0, "bytes": hex(&self.alphabet[*i].1)}),
            BOp::Reset => json!("reset"),
        }
    }
}

pub fn a_sys(thorough: bool) -> ASys {
    ASys {
        labels: if thorough { vec![L6A, L6B, L3A, L3B, L6P, L3Z, Lbl::Bcast, Lbl::ReUse] } else { vec![L6A, L6B, L3A, Lbl::Bcast, Lbl::ReUse] },
        hows: if thorough {
            vec![How::Complete, How::ExtComplete, How::FragOn(0), How::FragOn(1), How::FragTight(1), How::ExtFragOn(0), How::ExtFragOn(1), How::FailSmall, How::FailLong, How::FailPtype, How::ExtFailSmall, How::ExtFailLong, How::ExtFailHuge]
        } else {
            vec![How::Complete, How::ExtComplete, How::FragOn(0), How::FragOn(1), How::ExtFragOn(0), How::FailSmall, How::FailLong, How::FailPtype, How::ExtFailSmall, How::ExtFailLong, How::ExtFailHuge]
        },
        maxes: if thorough { vec![1, 2, 3, 255] } else { vec![1, 2] },
        long_pdu: vec![0x22u8; 65536],
    }
}

pub fn b_sys() -> BSys {
    BSys { alphabet: b_alphabet(), buffers: 2 }
}

pub fn run(tier: Tier) -> i32 {
    let rep = Report::new("C04", tier);
    rep.set_rule("A: closure of the product real Encapsulator x real Decapsulator (lock-step, every successfully produced packet fed at once) under send(label in {three 6-byte (two sharing their first three bytes), three 3-byte (one equal to that prefix, one all-zero), broadcast, explicit re-use} x how in {complete, complete via encap_ext, first fragment on id 0/1 via encap and encap_ext, a first fragment into a 10-byte buffer (possible only without label bytes on the wire, leaves 5 bytes), fail: small buffer / PDU too long / protocol type, encap_ext fail}), zero label, continue(id) (end fragment of an open train), reset of both sides, disable, enable, enable-with-max(1,2,3,255), and receiver-side noise (rejected intermediate / end fragments of unknown ids interleaved at any point); ghost = label intended per PDU and what the wire carried; B: closure of the receiver alone under 35 packets, with two and with one storage buffer (so that start packets are also rejected for lack of storage), (complete and first fragments of every label kind incl. re-use, continuation packets of known/unknown ids, rejected and malformed start packets, padding) and reset; oracle: a resolved re-use label equals the label of the nearest preceding start/complete packet of the frame. distinct = (op, outcome)");
    rep.assume("A: both label memories are reset at the same points; receiver storage is kept sufficient by re-provisioning delivered buffers; trains have 2 fragments");
    rep.assume("B: a start/complete packet whose label cannot be read (truncated, malformed) counts as carrying an unknown label: nothing may be resolved from before it; padding does not end the frame for the oracle (weaker than the crate, which clears its memory)");
    // B first: it closes within a second or two, A takes most of the time
    let bsys = b_sys();
    let exb = explore(&bsys, &Limits { max_states: 3_000_000, max_depth: 10_000 }, &rep, "B receiver alone");
    if !exb.closed {
        rep.cap("B did not close under the state cap");
    }
    // same model with a single storage buffer: start packets are then also rejected for lack of storage
    let bsys1 = BSys { alphabet: b_alphabet(), buffers: 1 };
    let exb1 = explore(&bsys1, &Limits { max_states: 3_000_000, max_depth: 10_000 }, &rep, "B receiver alone (one buffer)");
    if !exb1.closed {
        rep.cap("B (one buffer) did not close under the state cap");
    }
    let i = exb.states.len() - 1;
    rep.sample(2, || json!({"model": "B", "history": exb.path(i).iter().map(|o| bsys.op_json(o)).collect::<Vec<_>>()}));
    // both tiers explore the product to closure
    let mut asys = a_sys(true);
    if !tier.thorough() {
        // the quick tier leaves out the 3-byte label equal to the 6-byte labels' prefix and the unrelated second 6-byte
        // label (8 -> 6 letters: the prefix twin L6P is 'another 6-byte label' as well)
        asys.labels.retain(|l| *l != L3B && *l != L6B);
    }
    let ex = explore(&asys, &Limits { max_states: if tier.thorough() { 6_000_000 } else { 1_200_000 }, max_depth: 10_000 }, &rep, "A sender x receiver");
    if !ex.closed {
        rep.cap("A did not close under the state cap");
    }
    let i = ex.states.len() - 1;
    rep.sample(1, || json!({"model": "A", "history": ex.path(i).iter().map(|o| format!("{:?}", o)).collect::<Vec<_>>()}));
    rep.finish(true)
}
