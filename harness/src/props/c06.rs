//! C06 — every emitted packet is a well-formed, length-accurate GSE packet.
//! Complete product lattices over (PDU length, buffer length, label as passed, prior encapsulator
//! state, protocol type, fragment id) for the first call (encap, encap_ext) and over
//! (PDU length, context position, buffer length, fragment id) for continuation calls.

use crate::common::*;
use crate::report::{Acc, Report, Tier};
use crate::rx::FastCrc;
use crate::sender::*;
use crate::tx::*;
use rayon::prelude::*;
use serde_json::json;

pub fn labels() -> Vec<Lbl> {
    vec![L6A, L3A, Lbl::Bcast, Lbl::ReUse]
}

pub fn run(tier: Tier) -> i32 {
    let rep = Report::new("C06", tier);
    rep.set_rule("complete product of explicitly listed size sets (all small sizes, windows around 4095/4097/65535 shifted by the header sizes, sizes relative to each case's needs, far points) x labels x prior encapsulator states x protocol types x fragment ids; every Ok result is parsed by the independent reference parser; distinct = (call, status kind, size regime, label kind) classes");
    rep.assume("sizes between the enumerated windows are represented by the windows (all size decisions in the code are comparisons of linear expressions with 4095/4097/65535/header sizes)");
    rep.assume("an O(1) CRC stand-in is injected through the public CrcCalculator trait (the CRC value itself is C12's concern)");
    first_calls(&rep, tier);
    ptype_sweep(&rep);
    frag_calls(&rep, tier);
    ext_calls(&rep, tier);
    rep.finish(true)
}

/// every protocol type from 0x0100 upwards through encap (no extension): whatever is accepted must read, under the
/// independent parser, as a packet WITHOUT extension carrying that protocol type (0x0100..=0x05FF would read as the id
/// of an optional extension: a sender that accepts one of them emits a packet whose first PDU bytes are taken for
/// extension data)
fn ptype_sweep(rep: &Report) {
    let pts: Vec<u16> = (0x0100..=0xFFFFu16).collect();
    pts.par_chunks(1024).for_each(|chunk| {
        let mut acc = Acc::default();
        let pd = pdu(12, 1);
        for &pt in chunk {
            for l in [L6A, L3A, Lbl::Bcast] {
                for b in [64usize, 20] {
                    let mut enc = fast_enc();
                    let mut buf = vec![SENTINELS[0]; b];
                    let out = do_encap(&mut enc, &pd, 3, pt, l, &mut buf);
                    acc.states += 1;
                    acc.transitions += 1;
                    acc.calls += 1;
                    acc.outcome(&format!("ptype-sweep:{}:{}", out.class(), if pt < 0x0600 { "ext-id-range" } else { "ethertype-range" }));
                    if out.is_ok() {
                        acc.compared += 1;
                        let i = FirstIn { pdu: &pd, frag_id: 3, pt, label: l, b, may_substitute: false, exts: &[], mand: None };
                        let (mut fails, parsed) = wf_first(&i, &out, &buf, SENTINELS[0], &FastCrc);
                        if let Some(p) = parsed {
                            if !p.exts.is_empty() {
                                fails.push(("phantom-extension".into(), format!("the packet reads as carrying extensions {:?}", p.exts)));
                            }
                        }
                        for (cl, txt) in fails {
                            rep.violation(&format!("C06|encap|ptype-sweep|{}", cl), pt as u64, || {
                                (format!("encap(pdu_len=12, frag_id=3, pt={:#06x}, label={}, buffer={}) returned {:?}: {}", pt, l.short(), b, out, txt),
                                 json!({"call":"encap","pdu_len":12,"pdu_pattern":1,"frag_id":3,"pt":pt,"label":l.short(),"buffer_len":b,"prior":"Fresh","result":format!("{:?}",out)}))
                            });
                        }
                    }
                }
            }
        }
        rep.merge(acc);
    });
    rep.part(json!({"part":"protocol-type sweep through encap","protocol_types":"0x0100..=0xFFFF","labels":3,"buffers":[64,20]}));
}

fn first_calls(rep: &Report, tier: Tier) {
    let ps: Vec<usize> = if tier.thorough() { let mut v = p_set(); v.extend((0..=70000).step_by(13)); uniq(v) } else { p_set() };
    let bs = b_set();
    let pts: Vec<u16> = vec![0x0600, 0x0800, 0xFFFF, 0x0081];
    let fids: Vec<u8> = vec![0, 0xA7, 255];
    // special label VALUES (all-zero 3-byte label, labels next to the reserved all-zero 6-byte label, all ones ...) for small PDUs
    let cells: Vec<(usize, Lbl)> = ps.iter().flat_map(|&p| labels().into_iter().chain(if p < 48 { special_labels() } else { vec![] }).map(move |l| (p, l))).collect();
    let n_cells = std::sync::atomic::AtomicU64::new(0);
    cells.par_iter().enumerate().for_each(|(ci, &(p, l))| {
        if rep.over_time() {
            rep.cap("first_calls: wall cap");
            return;
        }
        let mut acc = Acc::default();
        let pd = pdu(p, 0);
        let mut bl = bs.clone();
        bl.extend(b_relative(p, l.wire_len(), 0));
        bl.extend(b_relative(p, 0, 0));
        let bl = uniq(bl);
        let maxb = *bl.last().unwrap();
        let mut bufs = [vec![SENTINELS[0]; maxb], vec![SENTINELS[1]; maxb]];
        for (pi, &prior) in PRIORS.iter().enumerate() {
            // priors that differ only for address labels are skipped for broadcast / explicit re-use
            if !l.is_addr() && !matches!(prior, Prior::Fresh | Prior::Disabled | Prior::Other) {
                continue;
            }
            let base = build_prior(FastCrc, prior, l);
            for &b in &bl {
                // protocol type / fragment id are only copied: rotate them over the cells, and take
                // the full product on the small sizes
                let combos: Vec<(u16, u8)> = if p <= 8 && b <= 24 {
                    pts.iter().flat_map(|&pt| fids.iter().map(move |&f| (pt, f))).collect()
                } else {
                    vec![(pts[(p + b + pi) % pts.len()], fids[(p + b) % fids.len()])]
                };
                for (pt, fid) in combos {
                    for (si, &sent) in SENTINELS.iter().enumerate() {
                        if si == 1 && !(b <= 64 || (p + b) % 5 == 0) {
                            continue;
                        }
                        let buf = &mut bufs[si][..b];
                        let mut enc = base.clone();
                        let out = do_encap(&mut enc, &pd, fid, pt, l, buf);
                        acc.states += 1;
                        acc.transitions += 1;
                        acc.calls += 1;
                        acc.outcome(&format!("encap:{}:{}:{}", out.class(), regime(p, b), l.short().split(':').next().unwrap()));
                        if out.is_ok() {
                            acc.compared += 1;
                            let i = FirstIn { pdu: &pd, frag_id: fid, pt, label: l, b, may_substitute: prior.may_substitute(l), exts: &[], mand: None };
                            let (fails, _) = wf_first(&i, &out, buf, sent, &FastCrc);
                            for (cl, txt) in fails {
                                let sig = format!("C06|encap|{}|{}", cl, regime(p, b));
                                rep.violation(&sig, (p * 100_000 + b) as u64, || {
                                    (format!("encap(pdu_len={}, frag_id={}, pt={:#06x}, label={}, buffer={}) from prior state {:?} returned {:?}: {}", p, fid, pt, l.short(), b, prior, out, txt),
                                     json!({"call":"encap","pdu_len":p,"pdu_pattern":0,"frag_id":fid,"pt":pt,"label":l.short(),"buffer_len":b,"prior":format!("{:?}",prior),"result":format!("{:?}",out),"first_bytes":hexs(&buf[..b.min(24)])}))
                                });
                            }
                        }
                        // restore the sentinel
                        let dirty = if matches!(out, EncOut::Panic(_)) { b } else { out.len().unwrap_or(0).min(b).max(b.min(16)) };
                        for x in buf[..dirty].iter_mut() {
                            *x = sent;
                        }
                        if buf.iter().any(|&x| x != sent) {
                            for x in buf.iter_mut() {
                                *x = sent;
                            }
                        }
                        if rep.sample_wanted((ci * 1000 + b) as u64) {
                            rep.sample((ci * 1000 + b) as u64, || json!({"call":"encap","pdu_len":p,"label":l.short(),"buffer":b,"prior":format!("{:?}",prior),"pt":pt,"result":format!("{:?}",out)}));
                        }
                    }
                }
            }
        }
        n_cells.fetch_add(acc.states, std::sync::atomic::Ordering::Relaxed);
        rep.merge(acc);
    });
    rep.part(json!({"part":"encap first calls","pdu_lengths":ps.len(),"buffer_lengths_base":bs.len(),"labels":labels().len(),"priors":PRIORS.len(),"cells":n_cells.load(std::sync::atomic::Ordering::Relaxed)}));
}

/// positions of the context within a PDU of length p
pub fn positions(p: usize) -> Vec<usize> {
    let mut v = vec![0, 1, p.saturating_sub(1), p, p + 1, 65535];
    if p <= 48 {
        v.extend(0..=p);
    }
    for d in 4086..=4097usize {
        if p >= d {
            v.push(p - d);
        }
    }
    for d in 0..=8usize {
        if p >= d {
            v.push(p - d);
        }
    }
    for c in crate::sender::pow2_windows() {
        if c <= p {
            v.push(c);
        }
    }
    let v: Vec<usize> = v.into_iter().filter(|&x| x <= 65535).collect();
    uniq(v)
}

fn frag_calls(rep: &Report, tier: Tier) {
    let ps: Vec<usize> = p_set().into_iter().filter(|&p| p <= 65535 + 30).collect();
    let bs = b_set();
    let _ = tier;
    let n_cells = std::sync::atomic::AtomicU64::new(0);
    ps.par_iter().for_each(|&p| {
        if rep.over_time() {
            rep.cap("frag_calls: wall cap");
            return;
        }
        let mut acc = Acc::default();
        let pd = pdu(p, 0);
        let enc = fast_enc();
        let maxb = 70000;
        let mut bufs = [vec![SENTINELS[0]; maxb], vec![SENTINELS[1]; maxb]];
        for pos in positions(p) {
            let rem = p.saturating_sub(pos);
            let mut bl = bs.clone();
            for d in 0..=4usize {
                bl.push((2 + 1 + rem + 4 + d).saturating_sub(2));
                bl.push((3 + rem + d).saturating_sub(2));
            }
            let bl = uniq(bl.into_iter().filter(|&b| b <= maxb).collect());
            let fids: Vec<u8> = if p <= 8 { (0..=255).collect() } else { vec![0, 0xA7, 255] };
            for &b in &bl {
                let fl: Vec<u8> = if p <= 8 && b <= 16 { fids.clone() } else { vec![fids[(p + b + pos) % fids.len()]] };
                for fid in fl {
                    let si = (p + b + pos) % 2;
                    let sent = SENTINELS[si];
                    let buf = &mut bufs[si][..b];
                    let ctx = Ctx { id: fid, crc: 0xC0DE_0000 ^ (p as u32) << 8 ^ pos as u32, pos: pos as u16 };
                    let out = do_encap_frag(&enc, &pd, ctx, buf);
                    acc.states += 1;
                    acc.transitions += 1;
                    acc.calls += 1;
                    acc.compared += 1;
                    acc.outcome(&format!("encap_frag:{}:{}:rem{}", out.class(), regime(p, b), if pos > p { "<0" } else if rem == 0 { "=0" } else { ">0" }));
                    let fails = wf_frag(&FragIn { pdu: &pd, ctx, b }, &out, buf, sent);
                    for (cl, txt) in fails {
                        // progress / rejection clauses belong to C11; C06 reports well-formedness only
                        if matches!(cl.as_str(), "rejects>=7" | "accepts-useless-buffer" | "empty-fragment" | "ctx-advance" | "ctx-id-crc" | "ctx-beyond-pdu") {
                            continue;
                        }
                        let sig = format!("C06|encap_frag|{}|{}", cl, regime(rem, b));
                        rep.violation(&sig, (p * 100_000 + b) as u64, || {
                            (format!("encap_frag(pdu_len={}, context=(id {}, pos {}), buffer={}) returned {:?}: {}", p, fid, pos, b, out, txt),
                             json!({"call":"encap_frag","pdu_len":p,"pdu_pattern":0,"frag_id":fid,"ctx_pos":pos,"ctx_crc":ctx.crc,"buffer_len":b,"result":format!("{:?}",out)}))
                        });
                    }
                    let dirty = if matches!(out, EncOut::Panic(_)) { b } else { out.len().unwrap_or(0).min(b).max(b.min(16)) };
                    for x in buf[..dirty].iter_mut() {
                        *x = sent;
                    }
                    if buf.iter().any(|&x| x != sent) {
                        for x in buf.iter_mut() {
                            *x = sent;
                        }
                    }
                }
            }
        }
        n_cells.fetch_add(acc.states, std::sync::atomic::Ordering::Relaxed);
        rep.merge(acc);
    });
    rep.part(json!({"part":"encap_frag continuation calls","pdu_lengths":ps.len(),"cells":n_cells.load(std::sync::atomic::Ordering::Relaxed)}));
}

/// small extension alphabet shared with C13 (one per H-LEN class + mandatory ones)
pub fn ext_alphabet() -> Vec<(u16, Vec<u8>)> {
    vec![
        (0x0101, vec![]),
        (0x0202, vec![0xE1, 0xE2]),
        (0x0303, vec![0xE3; 4]),
        (0x0404, vec![0xE4, 0x00, 0xE4, 0x01, 0xE4, 0x02]),
        (0x05FF, vec![0xE5, 0x00, 0x01, 0x02, 0x03, 0x04, 0x05, 0xE5]),
        (0x0010, vec![]),
        (0x0011, vec![0xD1]),
        (0x0018, vec![0xD8, 1, 2, 3, 4, 5, 6, 0xD8]),
        (0x0081, vec![]),
        (0x0042, vec![0xF4, 0xF2, 0xF0]),
    ]
}

pub fn is_final_mand(id: u16) -> bool {
    id < 0x0100 && full_mand(id).map(|x| x.0).unwrap_or(false)
}

/// chains of length 1..=maxlen over the alphabet; final mandatory extensions only in last position
pub fn chains(maxlen: usize) -> Vec<Vec<(u16, Vec<u8>)>> {
    let a = ext_alphabet();
    let mut out: Vec<Vec<(u16, Vec<u8>)>> = vec![];
    let mut cur: Vec<Vec<(u16, Vec<u8>)>> = vec![vec![]];
    for _ in 0..maxlen {
        let mut next = vec![];
        for c in &cur {
            if c.last().map(|e: &(u16, Vec<u8>)| is_final_mand(e.0)).unwrap_or(false) {
                continue;
            }
            for e in &a {
                let mut n = c.clone();
                n.push(e.clone());
                next.push(n);
            }
        }
        out.extend(next.iter().cloned());
        cur = next;
    }
    out
}

/// protocol type to pass with a chain so that the combination is encodable
pub fn pt_for_chain(c: &[(u16, Vec<u8>)]) -> u16 {
    let last = c.last().unwrap().0;
    if is_final_mand(last) {
        last
    } else {
        0x0800
    }
}

fn ext_calls(rep: &Report, tier: Tier) {
    let ch = chains(if tier.thorough() { 3 } else { 2 });
    let n_cells = std::sync::atomic::AtomicU64::new(0);
    ch.par_iter().enumerate().for_each(|(ci, c)| {
        if rep.over_time() {
            rep.cap("ext_calls: wall cap");
            return;
        }
        let mut acc = Acc::default();
        let pt = pt_for_chain(c);
        let ext_wire: usize = c.iter().map(|e| 2 + e.1.len()).sum::<usize>() - if is_final_mand(c.last().unwrap().0) { 2 } else { 0 };
        for &p in &[0usize, 1, 7, 4080, 4090] {
            let pd = pdu(p, 0);
            for l in [L6A, L3A, Lbl::Bcast] {
                for prior in [Prior::Fresh, Prior::Same, Prior::SameAtMax, Prior::Other] {
                    if matches!(prior, Prior::Same | Prior::SameAtMax) && !l.is_addr() {
                        continue;
                    }
                    let base = build_prior(FastCrc, prior, l);
                    let need = 2 + 2 + l.wire_len() + ext_wire + p;
                    let mut bl: Vec<usize> = if p <= 7 { (0..=need + 3).collect() } else { (need.saturating_sub(12)..=need + 3).chain(0..=40).collect() };
                    bl.extend([4097, 4098, 4099, 4110, 70000]);
                    for b in uniq(bl) {
                        let sent = SENTINELS[(b + p) % 2];
                        let mut buf = vec![sent; b];
                        let mut enc = base.clone();
                        let out = do_encap_ext(&mut enc, &pd, 0xA7, pt, l, &mut buf, c);
                        acc.states += 1;
                        acc.transitions += 1;
                        acc.calls += 1;
                        acc.outcome(&format!("encap_ext:{}:{}:chain{}", out.class(), regime(p, b), c.len()));
                        if out.is_ok() {
                            acc.compared += 1;
                            let i = FirstIn { pdu: &pd, frag_id: 0xA7, pt, label: l, b, may_substitute: prior.may_substitute(l), exts: c, mand: None };
                            let (fails, _) = wf_first(&i, &out, &buf, sent, &FastCrc);
                            for (cl, txt) in fails {
                                let sig = format!("C06|encap_ext|{}|{}|{}", cl, out.class(), regime(p, b));
                                rep.violation(&sig, (c.len() * 1_000_000 + p * 100 + b) as u64, || {
                                    (format!("encap_ext(pdu_len={}, pt={:#06x}, label={}, buffer={}, extensions={:?}) returned {:?}: {}", p, pt, l.short(), b, c, out, txt),
                                     json!({"call":"encap_ext","pdu_len":p,"pdu_pattern":0,"frag_id":0xA7,"pt":pt,"label":l.short(),"buffer_len":b,"extensions":c.iter().map(|e| json!([e.0, hex(&e.1)])).collect::<Vec<_>>(),"prior":format!("{:?}",prior),"result":format!("{:?}",out),"bytes":hexs(&buf[..b.min(64)])}))
                                });
                            }
                        }
                        if rep.sample_wanted((ci * 100000 + b) as u64) {
                            rep.sample((ci * 100000 + b) as u64, || json!({"call":"encap_ext","chain":c.iter().map(|e| e.0).collect::<Vec<_>>(),"pdu_len":p,"label":l.short(),"buffer":b,"result":format!("{:?}",out)}));
                        }
                    }
                }
            }
        }
        n_cells.fetch_add(acc.states, std::sync::atomic::Ordering::Relaxed);
        rep.merge(acc);
    });
    rep.part(json!({"part":"encap_ext first calls","chains":ch.len(),"cells":n_cells.load(std::sync::atomic::Ordering::Relaxed)}));
}

/// optional extension ids at the edges of every H-LEN class (value-specific slips such as `<=` on a range bound)
pub fn boundary_exts() -> Vec<(u16, Vec<u8>)> {
    let mut v = vec![];
    for (id, n) in [(0x0100u16, 0usize), (0x01FF, 0), (0x0200, 2), (0x02FF, 2), (0x0300, 4), (0x03FF, 4), (0x0400, 6), (0x04FF, 6), (0x0500, 8), (0x05FF, 8)] {
        v.push((id, (0..n).map(|i| 0xB0 + i as u8).collect()));
    }
    v
}
