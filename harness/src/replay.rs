//! `gsemc replay <file>`: re-executes a violation witness on fresh real objects, without the
//! explorer, twice, and requires identical transcripts.

use crate::common::*;
use crate::explore::*;
use crate::props;
use crate::rx::*;
use crate::rxmodel;
use crate::sender::*;
use crate::tx::*;
use dvb_gse_rust::crc::DefaultCrc;
use serde_json::Value;

fn parse_label(s: &str) -> Lbl {
    if let Some(h) = s.strip_prefix("6B:") {
        Lbl::Six(unhex(h).try_into().unwrap())
    } else if let Some(h) = s.strip_prefix("3B:") {
        Lbl::Three(unhex(h).try_into().unwrap())
    } else if s == "BC" {
        Lbl::Bcast
    } else {
        Lbl::ReUse
    }
}

fn parse_prior(s: &str) -> Prior {
    for p in ALL_PRIORS {
        if format!("{:?}", p) == s {
            return p;
        }
    }
    Prior::Fresh
}

fn num(v: &Value, k: &str) -> Option<u64> {
    v.get(k).and_then(|x| x.as_u64())
}

fn replay_call(w: &Value) -> Option<Vec<String>> {
    let call = w.get("call")?.as_str()?;
    let mut out = vec![];
    let p = num(w, "pdu_len").unwrap_or(0) as usize;
    let pat = num(w, "pdu_pattern").unwrap_or(0) as u8;
    let pd = match w.get("content").and_then(|c| c.as_str()) {
        Some(c) if c.starts_with("pattern") => pdu(p, c[7..].parse().unwrap_or(0)),
        Some(c) => unhex(c),
        None => pdu(p, pat),
    };
    let b = num(w, "buffer_len").unwrap_or(64) as usize;
    let fid = num(w, "frag_id").unwrap_or(0) as u8;
    let pt = num(w, "pt").unwrap_or(0x0800) as u16;
    let l = w.get("label").and_then(|x| x.as_str()).map(parse_label).unwrap_or(L6A);
    let prior = w.get("prior").and_then(|x| x.as_str()).map(parse_prior).unwrap_or(Prior::Fresh);
    let mut buf = vec![0xA5u8; b];
    match call {
        "encap" => {
            let mut enc = build_prior(DefaultCrc {}, prior, l);
            out.push(format!("encapsulator before: {:?}", enc));
            let r = do_encap(&mut enc, &pd, fid, pt, l, &mut buf);
            out.push(format!("encap(pdu_len={}, frag_id={}, pt={:#06x}, label={}, buffer_len={}) -> {:?}", p, fid, pt, l.short(), b, r));
            out.push(format!("encapsulator after: {:?}", enc));
            out.push(format!("buffer[..{}] = {}", b.min(64), hex(&buf[..b.min(64)])));
        }
        "encap_ext" => {
            let exts: Vec<(u16, Vec<u8>)> = w.get("extensions")?.as_array()?.iter().map(|e| (e[0].as_u64().unwrap() as u16, unhex(e[1].as_str().unwrap()))).collect();
            let mut enc = build_prior(DefaultCrc {}, prior, l);
            let r = do_encap_ext(&mut enc, &pd, fid, pt, l, &mut buf, &exts);
            out.push(format!("encap_ext(pdu_len={}, frag_id={}, pt={:#06x}, label={}, buffer_len={}, extensions={:?}) -> {:?}", p, fid, pt, l.short(), b, exts, r));
            out.push(format!("encapsulator after: {:?}", enc));
            out.push(format!("buffer[..{}] = {}", b.min(64), hex(&buf[..b.min(64)])));
        }
        "encap_frag" => {
            let ctx = Ctx { id: fid, crc: num(w, "ctx_crc").unwrap_or(0) as u32, pos: num(w, "ctx_pos").unwrap_or(0) as u16 };
            let enc = dvb_gse_rust::gse_encap::Encapsulator::new(DefaultCrc {});
            let r = do_encap_frag(&enc, &pd, ctx, &mut buf);
            out.push(format!("encap_frag(pdu_len={}, context={:?}, buffer_len={}) -> {:?}", p, ctx, b, r));
            out.push(format!("buffer[..{}] = {}", b.min(64), hex(&buf[..b.min(64)])));
        }
        "encap vs encap_preview" => {
            let mut enc = build_prior(DefaultCrc {}, prior, l);
            let pv = do_preview(&pd, pt, l, &buf);
            let r = do_encap(&mut enc, &pd, fid, pt, l, &mut buf);
            out.push(format!("encap -> {:?}; encap_preview -> {:?}", r, pv));
        }
        "encap_frag vs encap_frag_preview" => {
            let ctx = Ctx { id: fid, crc: 0x1234_5678, pos: num(w, "ctx_pos").unwrap_or(0) as u16 };
            let enc = dvb_gse_rust::gse_encap::Encapsulator::new(DefaultCrc {});
            let pv = do_frag_preview(&pd, ctx, &buf);
            let r = do_encap_frag(&enc, &pd, ctx, &mut buf);
            out.push(format!("encap_frag -> {:?}; encap_frag_preview -> {:?}", r, pv));
        }
        _ => return None,
    }
    Some(out)
}

fn hist_of(w: &Value) -> Vec<Value> {
    w.get("history").and_then(|h| h.as_array()).cloned().unwrap_or_default()
}

fn replay_model(w: &Value) -> Option<Result<Vec<String>, String>> {
    // C02 cases are wrapped: {"case": desc, "witness": {"model": "case", "history": [...]}}
    if let (Some(case), Some(inner)) = (w.get("case").and_then(|c| c.as_str()), w.get("witness")) {
        let c = props::c02::case_from_desc(case)?;
        return Some(replay_history(&c, &hist_of(inner)).map(|x| x.0));
    }
    if let Some(lh) = w.get("live_history").and_then(|x| x.as_array()) {
        let names: Vec<String> = lh.iter().filter_map(|x| x.as_str()).map(|x| x.to_string()).collect();
        let slots = num(w, "slots").unwrap_or(1) as usize;
        return Some(crate::live::replay_live(slots, &names).map(|mut lines| {
            if let Some(pr) = w.get("probe").and_then(|x| x.as_array()) {
                lines.push(format!("(then: reset_last_label, provision one 4-byte buffer, decap of the probe packets {:?})", pr));
            }
            lines
        }));
    }
    let model = w.get("model")?.as_str()?.to_string();
    let hist = hist_of(w);
    let r = if model == "sender-policy" {
        replay_history(&props::c15::Sys { labels: vec![L6A, L6B, L3A, L3B, Lbl::Bcast, Lbl::ReUse], maxes: vec![0, 1, 2, 3, 4, 7, 128, 254, 255], hows: props::c15::all_hows(), long_pdu: vec![0x11u8; 65536] }, &hist).map(|x| x.0)
    } else if let Some(n) = model.strip_prefix("memory-").and_then(|s| s.strip_suffix("-slots")).and_then(|s| s.parse::<usize>().ok()) {
        replay_history(&props::c17::Sys::new(n), &hist).map(|x| x.0)
    } else if let Some(n) = model.strip_prefix("receiver-").and_then(|s| s.strip_suffix("-slots")).and_then(|s| s.parse::<usize>().ok()) {
        let sys = rxmodel::Sys::new(n, 4, (0..n + 3).map(|i| 4 + i).collect(), true);
        replay_history(&sys, &hist).map(|(mut lines, st)| {
            lines.push(format!("receiver state reached: {:?}", st.rx));
            // optional extras recorded by C10 / C16
            let mgr = crate::rxalpha::mgr_std();
            if let Some(pk) = w.get("packet").and_then(|x| x.as_str()) {
                let q = unhex(pk);
                let (o0, _) = step_decap(&st.rx, &DefaultCrc {}, &mgr, &q);
                lines.push(format!("decap(packet alone) -> {}", o0.brief()));
                if let Some(t) = w.get("tail").and_then(|x| x.as_str()) {
                    let mut i = q.clone();
                    i.extend(unhex(t));
                    let (o1, _) = step_decap(&st.rx, &DefaultCrc {}, &mgr, &i);
                    lines.push(format!("decap(packet || tail {}) -> {}", t, o1.brief()));
                }
            }
            if let Some(pr) = w.get("probe") {
                let pkts: Vec<Vec<u8>> = match pr {
                    Value::String(s) => vec![unhex(s)],
                    Value::Array(a) => a.iter().filter_map(|x| x.as_str()).map(unhex).collect(),
                    _ => vec![],
                };
                let mut d = st.rx.build(DefaultCrc {}, mgr.clone());
                d.reset_last_label();
                let pv = d.provision_storage(vec![0u8; 4].into_boxed_slice());
                lines.push(format!("reset_last_label(); provision_storage(4 bytes) -> {:?}", pv.map_err(|e| mem_err_kind(&e).0)));
                for p in pkts {
                    let o = do_decap(&mut d, &p);
                    lines.push(format!("decap({}) -> {}", hex(&p), o.brief()));
                }
            }
            lines
        })
    } else if model == "A sender x receiver" {
        replay_history(&props::c04::a_sys(true), &hist).map(|x| x.0)
    } else if model == "B receiver alone" {
        replay_history(&props::c04::b_sys(), &hist).map(|x| x.0)
    } else if model == "B receiver alone (one buffer)" {
        let mut b = props::c04::b_sys();
        b.buffers = 1;
        replay_history(&b, &hist).map(|x| x.0)
    } else if model == "B spliced trains" {
        replay_history(&props::c03::b_sys(), &hist).map(|x| x.0)
    } else if let Some(v) = model.strip_prefix("live-sender variant=").and_then(|x| x.parse::<usize>().ok()) {
        replay_history(&props::c07::LSys::new(v), &hist).map(|x| x.0)
    } else if model.starts_with("slots=") {
        let sys = props::c07::sys_from_name(&model)?;
        replay_history(&sys, &hist).map(|x| x.0)
    } else {
        return None;
    };
    Some(r)
}

fn rx_brief(r: &RxS) -> String {
    let ctx: Vec<String> = r.mem.frags.iter().map(|f| match f {
        None => "-".to_string(),
        Some((c, b)) => format!("[id {} label {} pt {:#06x} total {} received {} ({}) reuse {} exts {:?} buffer {}]", c.frag_id, c.label.short(), c.pt, c.total_len, c.pdu_len, hex(&b[..(c.pdu_len as usize).min(b.len()).min(16)]), c.from_reuse, c.exts, b.len()),
    }).collect();
    format!("label memory {:?}, free buffers {:?}, slots {}", r.last.map(|l| l.short()), r.mem.free.iter().map(|b| b.len()).collect::<Vec<_>>(), ctx.join(" "))
}

/// Generic fallback: a witness that names the packets fed to a receiver ("packet" [+ "tail"] or "packets") and,
/// optionally, the receiver they were fed to ("receiver": {slots, storage, buffers, last_label, contexts:[...]}),
/// is re-executed on a real receiver built through the public constructor + hooks: peek and decap per packet.
fn replay_feed(w: &Value) -> Option<Vec<String>> {
    let mut pkts: Vec<Vec<u8>> = vec![];
    if let Some(a) = w.get("packets").and_then(|x| x.as_array()) {
        pkts = a.iter().filter_map(|x| x.as_str()).map(unhex).collect();
    } else if let Some(p) = w.get("packet").and_then(|x| x.as_str()) {
        let mut q = unhex(p);
        if let Some(t) = w.get("tail").and_then(|x| x.as_str()) {
            q.extend(unhex(t));
        }
        pkts.push(q);
    }
    if pkts.is_empty() {
        return None;
    }
    let r = w.get("receiver");
    let g = |k: &str, d: u64| r.and_then(|r| num(r, k)).unwrap_or(d) as usize;
    let (slots, storage, nbuf) = (g("slots", 2), g("storage", 64), g("buffers", 3));
    let mut rxs = RxS::new(slots, storage, &vec![storage; nbuf]);
    if let Some(l) = r.and_then(|r| r.get("last_label")).and_then(|x| x.as_str()) {
        rxs.last = Some(parse_label(l));
    }
    for c in r.and_then(|r| r.get("contexts")).and_then(|x| x.as_array()).cloned().unwrap_or_default() {
        let ctx = CtxS {
            label: c.get("label").and_then(|x| x.as_str()).map(parse_label).unwrap_or(L3A),
            pt: num(&c, "pt").unwrap_or(0x0800) as u16,
            frag_id: num(&c, "frag_id").unwrap_or(0) as u8,
            total_len: num(&c, "total_len").unwrap_or(40) as u16,
            pdu_len: num(&c, "pdu_len").unwrap_or(0) as u16,
            from_reuse: c.get("from_reuse").and_then(|x| x.as_bool()).unwrap_or(false),
            exts: vec![],
        };
        rxs.mem.set_ctx(ctx, vec![0u8; storage]);
    }
    let mut lines = vec![format!("receiver: {}", rx_brief(&rxs))];
    let mut d = rxs.build(DefaultCrc {}, crate::rxalpha::mgr_std());
    for p in &pkts {
        let pk = catch(|| d.get_label_or_frag_id(p)).map(|r| format!("{:?}", r.map_err(|e| format!("{:?}", e)))).unwrap_or_else(|e| format!("PANIC at {}", e.0));
        let o = do_decap(&mut d, p);
        lines.push(format!("peek({}) -> {}", hex(p), pk));
        lines.push(format!("decap -> {}", o.brief()));
        if let DecapOut::Completed { buf, .. } = &o {
            let _ = d.provision_storage(vec![0u8; buf.len()].into_boxed_slice());
        }
    }
    lines.push(format!("receiver after: {}", rx_brief(&RxS::of(&d))));
    Some(lines)
}

pub fn replay_file(path: &str) -> i32 {
    let s = match std::fs::read_to_string(path) {
        Ok(s) => s,
        Err(e) => {
            eprintln!("cannot read {}: {}", path, e);
            return 2;
        }
    };
    let doc: Value = match serde_json::from_str(&s) {
        Ok(v) => v,
        Err(e) => {
            eprintln!("{} is not JSON: {}", path, e);
            return 2;
        }
    };
    println!("property : {}", doc["property"].as_str().unwrap_or("?"));
    println!("signature: {}", doc["signature"].as_str().unwrap_or("?"));
    println!("what     : {}", doc["what"].as_str().unwrap_or("?"));
    let w = &doc["witness"];
    let run = |w: &Value| -> Option<Result<Vec<String>, String>> {
        if let Some(r) = replay_model(w) {
            return Some(r);
        }
        if let Some(r) = replay_call(w) {
            return Some(Ok(r));
        }
        replay_feed(w).map(Ok)
    };
    match (run(w), run(w)) {
        (Some(Ok(a)), Some(Ok(b))) => {
            println!("--- transcript (re-executed on fresh real objects, without the explorer) ---");
            for l in &a {
                println!("{}", l);
            }
            if a != b {
                eprintln!("MACHINERY-ERROR: two replays of the same witness gave different transcripts (uncontrolled nondeterminism)");
                return 2;
            }
            println!("--- replayed twice: identical observations ---");
            0
        }
        (Some(Err(e)), _) | (_, Some(Err(e))) => {
            eprintln!("MACHINERY-ERROR: {}", e);
            2
        }
        _ => {
            println!("--- descriptive witness (this check's cells are re-run by `./check {} quick`) ---", doc["property"].as_str().unwrap_or("<ID>"));
            println!("{}", serde_json::to_string_pretty(w).unwrap());
            0
        }
    }
}
