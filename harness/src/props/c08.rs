//! C08 — storage buffers are conserved: never leaked, never duplicated.
//! A: reachable states of the closed receiver system (provision / new_pdu / reset / decap over
//!    the rejection-complete packet alphabet), conservation equation on every transition.
//! B: deviation-bounded memory-failure injection behind the public GseDecapMemory trait.

use crate::common::*;
use crate::explore::*;
use crate::report::{Acc, Report, Tier};
use crate::rx::*;
use crate::rxalpha::*;
use crate::rxmodel;
use dvb_gse_rust::crc::DefaultCrc;
use dvb_gse_rust::gse_decap::{DecapContext, DecapMemoryError, Decapsulator, GseDecapMemory, SimpleGseMemory};
use rayon::prelude::*;
use serde_json::json;
use std::sync::{Arc, Mutex};

pub fn run(tier: Tier) -> i32 {
    let rep = Report::new("C08", tier);
    rep.set_rule("A: breadth-first exploration (to closure where it closes, else to the reported depth) of the real receiver with memories of 1, 2 and 3 slots (3: depth 5, thorough 7) and slots+3 buffers of pairwise distinct lengths, ops provision(each caller-owned buffer) / new_pdu / reset / decap(each of the 46 alphabet packets: every valid kind and one packet per rejection reason); oracle: multiset(free list + contexts + caller-owned incl. result and error payloads) is invariant on every transition and has no duplicates. B: in every explored state x every packet, each memory call of the decap is made to fail in turn (1 deviation; thorough: 2) through a wrapper implementing the public trait; same equation. distinct = (op, outcome)");
    rep.assume("buffer identity = length (pairwise distinct, content independent); free-buffer contents are normalised to zero between transitions (decap never reads them)");
    rep.assume("B: injected failures are those a contract-respecting memory may return at that call (underflow on new_pdu/new_frag, overflow handing the buffer back on provision_storage, undefined id leaving the memory unchanged on take_frag, refusal keeping the buffer inside the memory on save_frag)");
    let mut all_states: Vec<(usize, rxmodel::St)> = vec![];
    // 3 slots: a table size that is not a power of two (depth-bounded in both tiers)
    for slots in [1usize, 2, 3] {
        let buffers: Vec<usize> = (0..slots + 3).map(|i| 4 + i).collect();
        let sys = rxmodel::Sys::new(slots, 4, buffers, true);
        let (max_states, max_depth) = if slots == 3 { (700_000, if tier.thorough() { 7 } else { 5 }) } else if tier.thorough() { (4_000_000, 64) } else if slots == 1 { (400_000, 64) } else { (700_000, 9) };
        let ex = explore(&sys, &Limits { max_states, max_depth }, &rep, &format!("receiver-{}-slots", slots));
        let k = ex.states.len();
        for i in [k / 2, k - 1] {
            let path = ex.path(i);
            rep.sample((slots * 10 + i) as u64, || json!({"slots": slots, "history": path.iter().map(|o| sys_op(&sys, o)).collect::<Vec<_>>(), "state": format!("{:?}", ex.states[i])}));
        }
        for s in ex.states {
            all_states.push((slots, s));
        }
    }
    part_b(&rep, tier, &all_states);
    directed_large(&rep);
    for slots in [1usize, 2] {
        crate::live::live_pass(&rep, "C08", crate::live::Oracle::Conservation, slots, if tier.thorough() { 6 } else { 5 });
    }
    rep.assume("the snapshot-based closure merges states by the snapshot of all fields the hooks expose; state outside it is covered only by the live pass (all histories up to depth 5, thorough 6, over an 18-op alphabet)");
    rep.finish(true)
}

fn sys_op(sys: &rxmodel::Sys, o: &rxmodel::Op) -> serde_json::Value {
    sys.op_json(o)
}

// ---------------------------------------------------------------------------------------
// B: fault injection through the public trait
// ---------------------------------------------------------------------------------------

#[derive(Default)]
pub struct FaultCtl {
    /// indices (0-based, counted over the memory calls of one decap) that must fail
    pub fail_at: Vec<usize>,
    pub calls: usize,
    pub log: Vec<String>,
    /// buffers the wrapper keeps because the trait gives no way to return them (refused save_frag)
    pub kept: Vec<usize>,
}

pub struct Faulty {
    pub inner: SimpleGseMemory,
    pub ctl: Arc<Mutex<FaultCtl>>,
}

impl Faulty {
    fn tick(&self, name: &str) -> bool {
        let mut c = self.ctl.lock().unwrap();
        let i = c.calls;
        c.calls += 1;
        let f = c.fail_at.contains(&i);
        c.log.push(format!("{}{}", name, if f { "!FAIL" } else { "" }));
        f
    }
}

impl GseDecapMemory for Faulty {
    fn new(a: usize, b: usize, c: usize, d: usize) -> Self {
        Faulty { inner: SimpleGseMemory::new(a, b, c, d), ctl: Arc::new(Mutex::new(FaultCtl::default())) }
    }
    fn provision_storage(&mut self, storage: Box<[u8]>) -> Result<(), DecapMemoryError> {
        if self.tick("provision_storage") {
            return Err(DecapMemoryError::StorageOverflow(storage));
        }
        self.inner.provision_storage(storage)
    }
    fn new_pdu(&mut self) -> Result<Box<[u8]>, DecapMemoryError> {
        if self.tick("new_pdu") {
            return Err(DecapMemoryError::StorageUnderflow);
        }
        self.inner.new_pdu()
    }
    fn new_frag(&mut self, context: DecapContext) -> Result<(DecapContext, Box<[u8]>), DecapMemoryError> {
        if self.tick("new_frag") {
            return Err(DecapMemoryError::StorageUnderflow);
        }
        self.inner.new_frag(context)
    }
    fn take_frag(&mut self, frag_id: u8) -> Result<(DecapContext, Box<[u8]>), DecapMemoryError> {
        if self.tick("take_frag") {
            return Err(DecapMemoryError::UndefinedId);
        }
        self.inner.take_frag(frag_id)
    }
    fn save_frag(&mut self, context: (DecapContext, Box<[u8]>)) -> Result<(), DecapMemoryError> {
        if self.tick("save_frag") {
            self.ctl.lock().unwrap().kept.push(context.1.len());
            return Err(DecapMemoryError::MemoryCorrupted);
        }
        self.inner.save_frag(context)
    }
}

fn part_b(rep: &Report, tier: Tier, states: &[(usize, rxmodel::St)]) {
    let max_dev = if tier.thorough() { 2 } else { 1 };
    let stride = if tier.thorough() { 1 } else { (states.len() / 20_000).max(1) };
    let picked: Vec<&(usize, rxmodel::St)> = states.iter().step_by(stride).collect();
    let alph: Vec<Vec<Pkt>> = vec![vec![], alphabet(1), alphabet(2), alphabet(3)];
    picked.par_chunks(64).for_each(|chunk| {
        if rep.over_time() {
            rep.cap("B: wall cap");
            return;
        }
        let mut acc = Acc::default();
        for (slots, st) in chunk.iter().map(|x| (x.0, &x.1)) {
            for pkt in &alph[slots] {
                // first run without deviation to learn the number of memory calls
                let mut plans: Vec<Vec<usize>> = vec![vec![]];
                let mut pi = 0;
                while pi < plans.len() {
                    let plan = plans[pi].clone();
                    pi += 1;
                    let ctl = Arc::new(Mutex::new(FaultCtl { fail_at: plan.clone(), ..Default::default() }));
                    let mem = Faulty { inner: st.rx.mem.build(), ctl: ctl.clone() };
                    let mut d = Decapsulator::new(mem, DefaultCrc {}, mgr_std());
                    d.verif_set_last_label(st.rx.last.map(|l| l.to_label()));
                    let before = {
                        let mut v = st.rx.mem.buffer_lens();
                        v.sort();
                        v
                    };
                    let out = observe(catch(|| d.decap(&pkt.bytes)));
                    acc.states += 1;
                    acc.transitions += 1;
                    acc.calls += 1;
                    acc.compared += 1;
                    let c = ctl.lock().unwrap();
                    let ncalls = c.calls;
                    let mut after = MemS::of(&d.memory.inner).buffer_lens();
                    after.extend(c.kept.iter());
                    match &out {
                        DecapOut::Completed { buf, .. } => after.push(buf.len()),
                        DecapOut::Err { handed_back: Some(b), .. } => after.push(b.len()),
                        _ => {}
                    }
                    after.sort();
                    let injected: Vec<String> = c.log.iter().filter(|x| x.ends_with("!FAIL")).cloned().collect();
                    acc.outcome(&format!("B:{}:{}", if injected.is_empty() { "no-fault".to_string() } else { injected.join("+") }, out.class()));
                    let wit = || json!({"slots": slots, "receiver_state": format!("{:?}", st.rx), "packet": pkt.name, "bytes": hex(&pkt.bytes), "memory_calls": c.log, "outcome": out.brief(), "buffers_before": before, "buffers_after": after});
                    if let DecapOut::Panic(p) = &out {
                        if !plan.is_empty() {
                            rep.violation(&format!("C08|B|panic|{}|{}", Panicked(p.clone()).coarse(), injected.join("+")), plan.len() as u64, || (format!("decap({}) panics at {} when the memory answers {:?}", pkt.name, p, c.log), wit()));
                        }
                    } else if after != before {
                        rep.violation(&format!("C08|B|leak|{}|{}|{}", pkt.name.split('-').next().unwrap(), injected.join("+"), out.class()), plan.len() as u64, || (format!("decap({}) with memory answers {:?} -> {}: buffers before {:?}, after {:?}", pkt.name, c.log, out.brief(), before, after), wit()));
                    }
                    // extend: one more deviation at every later call index
                    if plan.len() < max_dev {
                        let start = plan.last().map(|x| x + 1).unwrap_or(0);
                        for k in start..ncalls {
                            let mut p2 = plan.clone();
                            p2.push(k);
                            plans.push(p2);
                        }
                    }
                }
            }
        }
        rep.merge(acc);
    });
    rep.part(json!({"part":"B memory-failure injection","states":picked.len(),"of":states.len(),"max_deviations":max_dev}));
}

/// Directed history the BFS cannot reach cheaply: storages larger than 65535 bytes, one of them
/// filled to the 16-bit limit of the reassembly bookkeeping; conservation on every following call.
fn directed_large(rep: &Report) {
    use crate::refm::Desc;
    let mut acc = Acc::default();
    let mgr = mgr_std();
    let first = Desc::first(L3A, 0x0800, 0, 0xFFFF, &vec![0x41u8; 4085]).print();
    let inter = Desc::inter(0, &vec![0x42u8; 4094]).print();
    let mut menu: Vec<(String, Vec<u8>)> = vec![];
    for n in [1usize, 39, 40, 41, 100, 4094] {
        menu.push((format!("inter-{}", n), Desc::inter(0, &vec![0x43u8; n]).print()));
        menu.push((format!("end-{}", n), Desc::end(0, &vec![0x44u8; n], 0x0102_0304).print()));
    }
    menu.push(("end-crc-only".into(), Desc::end(0, &[], 0).print()));
    menu.push(("first-restart".into(), first.clone()));
    // every sequence of up to 3 menu packets after the filling history
    let n = menu.len();
    let seqs: Vec<Vec<usize>> = (0..n).flat_map(|a| std::iter::once(vec![a]).chain((0..n).flat_map(move |b| std::iter::once(vec![a, b]).chain((0..n).map(move |c| vec![a, b, c]))))).collect();
    let results: Vec<(Acc, Vec<(String, String, Vec<String>)>)> = seqs
        .par_chunks(64)
        .map(|chunk| {
            let mut acc = Acc::default();
            let mut out = vec![];
            for seq in chunk {
                let mut d = RxS::new(1, 65536, &[70001, 70000]).build(DefaultCrc {}, mgr.clone());
                let _ = do_decap(&mut d, &first);
                for _ in 0..15 {
                    let _ = do_decap(&mut d, &inter);
                }
                let mut owned: Vec<usize> = vec![];
                let mut names = vec![];
                for &k in seq {
                    let before = {
                        let mut v = MemS::of(&d.memory).buffer_lens();
                        v.extend(owned.iter());
                        v.sort();
                        v
                    };
                    let o = do_decap(&mut d, &menu[k].1);
                    names.push(format!("{} -> {}", menu[k].0, o.class()));
                    acc.states += 1;
                    acc.transitions += 1;
                    acc.calls += 1;
                    acc.compared += 1;
                    acc.outcome(&format!("directed:{}:{}", menu[k].0.split('-').next().unwrap(), o.class()));
                    match &o {
                        DecapOut::Completed { buf, .. } => owned.push(buf.len()),
                        DecapOut::Err { handed_back: Some(b), .. } => owned.push(b.len()),
                        DecapOut::Panic(_) => break,
                        _ => {}
                    }
                    let mut after = MemS::of(&d.memory).buffer_lens();
                    after.extend(owned.iter());
                    after.sort();
                    if after != before {
                        out.push((format!("C08|directed-large-storage|leak|{}|{}", menu[k].0.split('-').next().unwrap(), o.class()), format!("70000-byte storage holding 65495 reassembled bytes, then {:?}: buffers before {:?}, after {:?}", names, before, after), names.clone()));
                        break;
                    }
                }
            }
            (acc, out)
        })
        .collect();
    for (a, viols) in results {
        acc.states += a.states;
        acc.transitions += a.transitions;
        acc.calls += a.calls;
        acc.compared += a.compared;
        for (k, v) in a.outcomes {
            *acc.outcomes.entry(k).or_insert(0) += v;
        }
        for (sig, what, names) in viols {
            rep.violation(&sig, names.len() as u64, || (what.clone(), json!({"history": "first fragment of 4085 bytes (total length 0xFFFF) + 15 intermediates of 4094 bytes into a 70000-byte storage", "then": names})));
        }
    }
    rep.merge(acc);
    rep.part(json!({"part":"directed: storages > 65535 bytes at the 16-bit bookkeeping limit","sequences":seqs.len(),"menu":menu.len()}));
}
